----------------------------- MODULE AuthClient -----------------------------
(***************************************************************************)
(* C05, converse clause: "a client presenting a valid credential           *)
(* (password, local key, certificate or agent-held key) is admitted".      *)
(*                                                                         *)
(* An explicit model of how the asyncssh CLIENT walks through user         *)
(* authentication, transcribed from                                        *)
(*   connection.py  SSHClientConnection.__init__ (preferred_auth, agent),  *)
(*                  _process_service_accept, try_next_auth,                *)
(*                  _process_userauth_failure (preferred_auth filter,      *)
(*                  partial success), _process_userauth_success,           *)
(*                  public_key_auth_requested (agent keys PREPENDED to      *)
(*                  client_keys, saved RSA key / certificate key-type      *)
(*                  retry), _choose_signature_alg (server-sig-algs),       *)
(*                  password_auth_requested (password used once),          *)
(*                  kbdint_auth_requested / kbdint_challenge_received      *)
(*                  (answering with the password)                          *)
(*   auth.py        _ClientNullAuth, _ClientPublicKeyAuth (query, PK_OK    *)
(*                  check, signed request, sign failure), _ClientKbdIntAuth*)
(*                  _ClientPasswordAuth (PASSWD_CHANGEREQ), and the        *)
(*                  credential-less methods (hostbased without host keys,  *)
(*                  gssapi without GSS) which call                         *)
(*                  try_next_auth(next_method=True); lookup_client_auth    *)
(*   public_key.py  load_keypairs ("the private key is added to the list   *)
(*                  both with and without the certificate"),               *)
(*                  SSHKeyPair.set_sig_algorithm; agent.py SSHAgentKeyPair *)
(*                                                                         *)
(* One behaviour = one configuration (chosen in Init) run to the end:      *)
(* the client's options and credentials, the server's behaviour (a         *)
(* deterministic function of the configuration), and the dialogue `dlg`:   *)
(* every USERAUTH_REQUEST / INFO_RESPONSE the client sends and every reply.*)
(* Actions = one per request / reply / internal method skip, as coded.     *)
(*                                                                         *)
(* Application callbacks are the defaults of asyncssh.SSHClient            *)
(* (public_key_auth_requested / password_auth_requested return None,       *)
(* kbdint_auth_requested returns NotImplemented) except for cfg.app:       *)
(* a keyboard-interactive responder which offers itself ONCE and answers   *)
(* every prompt with its token.                                            *)
(***************************************************************************)
EXTENDS Naturals, Sequences, FiniteSets, TLC

CONSTANTS Tier,               \* "quick" | "thorough": size of the configuration space
          Sections,           \* which slices are enumerated
          AsCoded,            \* TRUE: public_key_auth_requested exactly as written today - it looks
                              \* at "no client keys left" BEFORE the saved RSA certificate, so the
                              \* second attempt (SHA-2 certificate key type) is lost when the
                              \* certificate is the last key pair.  FALSE = the intended rule
                              \* (the one host_based_auth_requested implements): the oracle.
          \* sensitivity: deliberately WRONG variants of the client rule
          StopAtFirstFailedKey,  \* a refused key ends public key authentication
          PasswordKept,          \* the password is not cleared after use
          AgentAppended,         \* agent keys after client_keys
          NoRsaRetry,            \* no second attempt under the SHA-2 certificate key type
          NoPrefFilter,          \* preferred_auth not applied to the server's list
          PopTwice,              \* next_method skips two methods
          \* witnesses: the stated exceptions are real (TLC must refute the strict reading)
          StrictConverse,        \* no "the one password was spent elsewhere" exception
          StrictDisabled         \* password_auth=False means no password request at all

PK  == "publickey"
KBD == "keyboard-interactive"
PW  == "password"
HB  == "hostbased"
GSS == "gssapi-with-mic"
UNK == "frobnicate"
Real == {PK, KBD, PW}
\* get_supported_client_auth_methods(): registration order of auth.py minus "none"
DefaultPref == <<"gssapi-keyex", GSS, HB, PK, KBD, PW>>
CertSuffix == "-cert-v01@openssh.com"
LegacyRsaCert == "ssh-rsa" \o CertSuffix

InSeq(x, s) == \E i \in DOMAIN s : s[i] = x
OrdSubsets(S) == UNION {{s \in [1..n -> S] : \A i, j \in 1..n : i # j => s[i] # s[j]} :
                        n \in 0..Cardinality(S)}
SeqsUpTo(S, n) == UNION {[1..k -> S] : k \in 0..n}
Big == Tier = "thorough"

----------------------------------------------------------------------------
\* data
Kp(slot, alg, form, ok, sign) ==     \* one key pair as the client holds it
    [slot |-> slot, alg |-> alg,     \* alg: "ed" | "ec" | "rsa"
     form |-> form,                  \* "plain" | "cert"
     ok |-> ok,                      \* the server accepts this key / certificate for the user
     sign |-> sign]                  \* "yes" | "agentrefuses" | "srvrejects" (PK_OK, signed request refused)
NoKp == Kp("-", "-", "-", FALSE, "-")
Item(slot, alg, cert, ok, sign) ==   \* one client_keys entry: key, optionally with certificate
    [slot |-> slot, alg |-> alg,
     cert |-> cert,                  \* "-" | "ok" | "bad"
     ok |-> ok, sign |-> sign]       \* the plain key

Srv0 == [list0 |-> <<PK, KBD, PW>>,  \* methods named in USERAUTH_FAILURE
         change |-> 0,               \* k > 0: from the k-th failure on the list is list1
         list1 |-> <<>>,
         required |-> <<>>,          \* non-empty: all of these must succeed (partial success)
         afterPartial |-> "remaining",  \* list after a partial success: "remaining" | "all"
         noneOk |-> FALSE,           \* "none" request succeeds
         kbdRounds |-> <<"pw">>,     \* INFO_REQUESTs: "empty" | "pw" | "otp" | "two"
         kbdSecret |-> "same",       \* "same": the password answers a password prompt; "other"
         pwReply |-> "normal",       \* | "changereq"
         adv |-> "all",              \* server-sig-algs: "none" (no EXT_INFO) | "all" | "512" | "sha1" | "norsa"
         certName |-> "both",        \* RSA certificate key type accepted: | "legacy" | "new"
         pkokWrong |-> FALSE]        \* PK_OK names another key
Cfg0 == [sec |-> "", prefDefault |-> TRUE, pref |-> <<>>,
         flags |-> [pk |-> TRUE, kbd |-> TRUE, pw |-> TRUE],   \* public_key_auth / kbdint_auth / password_auth
         hasAgent |-> FALSE, agent |-> <<>>,     \* key pairs the agent lists, in order
         local |-> <<>>,                         \* client_keys, in order
         pw |-> "none",                          \* password option: "none" | "right" | "wrong"
         app |-> "none",                         \* application kbdint responder: "none" | "right" | "wrong"
         srv |-> Srv0]

ASlot == <<"a1", "a2", "a3">>
LSlot == <<"l1", "l2", "l3">>

----------------------------------------------------------------------------
\* the configuration space, in sections
PW3 == {"none", "right", "wrong"}

\* -- "order": preferred_auth x server list x one credential per method
OrderPrefs ==
    IF Big THEN {<<"*">>} \cup OrdSubsets(Real) \cup {<<HB, PW>>, <<UNK, PW, PK>>}
    ELSE {<<"*">>, <<>>, <<PW, PK>>, <<KBD>>, <<PW, KBD, PK>>, <<PK, PW>>, <<UNK, PW, PK>>}
OrderLists ==
    IF Big THEN OrdSubsets(Real) \cup {<<GSS, HB, PK, KBD, PW>>, <<UNK, PW, PK>>}
    ELSE {<<>>, <<PK>>, <<PW>>, <<KBD, PW>>, <<PW, PK>>, <<PK, KBD, PW>>, <<PW, KBD, PK>>,
          <<GSS, HB, PK, KBD, PW>>, <<UNK, PW, PK>>}
OrderKeys == {<<>>, <<Item("l1", "ed", "-", TRUE, "yes")>>, <<Item("l1", "ed", "-", FALSE, "yes")>>}
AllOn == [pk |-> TRUE, kbd |-> TRUE, pw |-> TRUE]
PkOff == [pk |-> FALSE, kbd |-> TRUE, pw |-> TRUE]
SecOrder ==
    {c \in {[Cfg0 EXCEPT !.sec = "order", !.prefDefault = (p = <<"*">>),
                         !.pref = IF p = <<"*">> THEN <<>> ELSE p, !.flags = f,
                         !.local = k, !.pw = w, !.app = a, !.srv.list0 = l] :
               p \in OrderPrefs, l \in OrderLists, k \in OrderKeys, w \in PW3,
               a \in IF Big THEN PW3 ELSE {"none", "wrong"}, f \in {AllOn, PkOff}} :
        c.flags = AllOn \/ (c.prefDefault /\ c.local # <<>> /\ c.app = "none")}

\* -- "keys": agent key pairs and client_keys entries of every kind
AKinds == {<<"plain", TRUE, "yes">>, <<"plain", FALSE, "yes">>, <<"cert", TRUE, "yes">>,
           <<"cert", FALSE, "yes">>, <<"plain", TRUE, "agentrefuses">>}
LKinds == {<<"-", TRUE>>, <<"-", FALSE>>, <<"ok", TRUE>>, <<"ok", FALSE>>, <<"bad", TRUE>>,
           <<"bad", FALSE>>}
AgentSeq(ks) == [i \in DOMAIN ks |-> Kp(ASlot[i], "ed", ks[i][1], ks[i][2], ks[i][3])]
LocalSeq(ks) == [i \in DOMAIN ks |->
                    Item(LSlot[i], IF i = 2 THEN "ec" ELSE "ed", ks[i][1], ks[i][2], "yes")]
SecKeys ==
    {[Cfg0 EXCEPT !.sec = "keys", !.hasAgent = ag[1], !.agent = AgentSeq(ag[2]),
                  !.local = LocalSeq(lk), !.pw = lw[2], !.srv.list0 = lw[1]] :
        ag \in {<<FALSE, <<>>>>} \cup {<<TRUE, s>> : s \in SeqsUpTo(AKinds, IF Big THEN 2 ELSE 1)},
        lk \in SeqsUpTo(LKinds, 2),
        lw \in {<<<<PK>>, "none">>, <<<<PK, PW>>, "right">>, <<<<PK, PW>>, "wrong">>}}

\* -- "rsa": RSA keys and certificates under every server-sig-algs variant
RsaArr ==      \* <<hasAgent, agent key pairs, client_keys>>
    {<<FALSE, <<>>, <<Item("l1", "rsa", "-", TRUE, "yes")>>>>,
     <<FALSE, <<>>, <<Item("l1", "rsa", "ok", FALSE, "yes")>>>>,
     <<FALSE, <<>>, <<Item("l1", "rsa", "bad", TRUE, "yes")>>>>,
     <<TRUE, <<Kp("a1", "rsa", "plain", TRUE, "yes")>>, <<>>>>,
     <<TRUE, <<Kp("a1", "rsa", "cert", TRUE, "yes")>>, <<>>>>,
     <<TRUE, <<Kp("a1", "rsa", "cert", FALSE, "yes"), Kp("a1", "rsa", "plain", TRUE, "yes")>>, <<>>>>,
     <<TRUE, <<Kp("a1", "rsa", "cert", FALSE, "yes")>>, <<Item("l1", "rsa", "bad", FALSE, "yes")>>>>}
\* a server insisting on the SHA-2 certificate key type advertises SHA-2 signatures
ConsistentSrv(s) == s.certName = "new" => s.adv \in {"all", "512"}
SecRsa ==
    {c \in {[Cfg0 EXCEPT !.sec = "rsa", !.hasAgent = r[1], !.agent = r[2],
                         !.local = r[3] \o t, !.srv.list0 = <<PK>>, !.srv.adv = a,
                         !.srv.certName = n] :
               r \in RsaArr, a \in {"none", "all", "512", "sha1", "norsa"},
               n \in {"both", "legacy", "new"},
               t \in {<<>>, <<Item("l2", "ed", "-", TRUE, "yes")>>}} :
        ConsistentSrv(c.srv)}

\* -- "kbd": keyboard-interactive prompts, the password fallback, password change, disabled methods
KbdRoundSets == {<<"pw">>, <<"otp">>, <<"two">>, <<"empty", "pw">>, <<"pw", "otp">>,
                 <<"pw", "pw">>, <<"empty">>}
KbdQuick(c) ==      \* the quick slice
    /\ c.flags = AllOn \/ (c.prefDefault /\ c.srv.pwReply = "normal" /\ c.app # "right")
    /\ c.srv.pwReply = "normal" \/ (c.srv.kbdSecret = "same" /\ c.app # "wrong")
    /\ c.app # "wrong" \/ c.srv.kbdRounds \in {<<"pw">>, <<"otp">>}
SecKbd ==
    {c \in {[Cfg0 EXCEPT !.sec = "kbd", !.prefDefault = (p = <<"*">>),
                         !.pref = IF p = <<"*">> THEN <<>> ELSE p, !.flags = f,
                         !.pw = w, !.app = a, !.srv.list0 = l, !.srv.kbdRounds = r,
                         !.srv.kbdSecret = s, !.srv.pwReply = y] :
               p \in IF Big THEN {<<"*">>, <<PW, KBD>>, <<>>} ELSE {<<"*">>, <<PW, KBD>>},
               f \in {AllOn, [pk |-> TRUE, kbd |-> TRUE, pw |-> FALSE],
                      [pk |-> TRUE, kbd |-> FALSE, pw |-> TRUE]},
               w \in PW3, a \in PW3, l \in {<<KBD>>, <<KBD, PW>>, <<PW, KBD>>},
               r \in IF Big THEN KbdRoundSets
                     ELSE {<<"pw">>, <<"otp">>, <<"empty", "pw">>, <<"pw", "otp">>},
               s \in {"same", "other"}, y \in {"normal", "changereq"}} :
        Big \/ KbdQuick(c)}

\* -- "mix": keyboard-interactive given up / failed while other methods follow and the method
\*    is listed again after their failures (is it offered a second time?)
SecMix ==
    {[Cfg0 EXCEPT !.sec = "mix", !.prefDefault = (p = <<"*">>),
                  !.pref = IF p = <<"*">> THEN <<>> ELSE p,
                  !.local = k, !.pw = w, !.app = a, !.srv.list0 = l, !.srv.kbdRounds = r,
                  !.srv.kbdSecret = s] :
        p \in IF Big THEN {<<"*">>, <<>>, <<KBD, PK, PW>>} ELSE {<<>>, <<KBD, PK, PW>>},
        k \in {<<Item("l1", "ed", "-", FALSE, "yes")>>,
               <<Item("l1", "ed", "-", FALSE, "yes"), Item("l2", "ed", "-", TRUE, "yes")>>},
        w \in IF Big THEN PW3 ELSE {"right", "wrong"},
        a \in IF Big THEN {"none", "wrong"} ELSE {"none"},
        l \in IF Big THEN {<<KBD, PK>>, <<KBD, PK, PW>>, <<PW, KBD, PK>>}
              ELSE {<<KBD, PK>>, <<KBD, PK, PW>>},
        r \in {<<"otp">>, <<"pw">>, <<"two">>, <<"pw", "otp">>},
        s \in IF Big THEN {"same", "other"} ELSE {"same"}}

\* -- "dyn": what only a scripted server does: changing lists, partial success, anomalies
DynLists == {<<PK, PW>>, <<PW, PK>>, <<PK>>, <<PW>>, <<PK, KBD, PW>>}
DynKeys == {<<>>, <<Item("l1", "ed", "-", FALSE, "yes")>>, <<Item("l1", "ed", "-", TRUE, "yes")>>,
            <<Item("l1", "ed", "-", FALSE, "yes"), Item("l2", "ed", "-", TRUE, "yes")>>}
DynPrefs == {<<"*">>, <<>>, <<PW, PK>>}
SecDynChange ==
    {[Cfg0 EXCEPT !.sec = "change", !.prefDefault = (p = <<"*">>),
                  !.pref = IF p = <<"*">> THEN <<>> ELSE p,
                  !.local = k, !.pw = w, !.app = a, !.srv.list0 = l0, !.srv.list1 = l1,
                  !.srv.change = n] :
        p \in DynPrefs, k \in DynKeys, w \in PW3, a \in IF Big THEN {"none", "right"} ELSE {"none"},
        l0 \in IF Big THEN DynLists ELSE {<<PK, PW>>, <<PW, PK>>, <<PW>>},
        l1 \in IF Big THEN DynLists \cup {<<>>} ELSE {<<PK, PW>>, <<PW, PK>>, <<PK>>, <<>>, <<PK, KBD, PW>>},
        n \in IF Big THEN {2, 3} ELSE {2}}
PartialReq == {<<PK, PW>>, <<PK, KBD>>, <<KBD, PW>>, <<PK, KBD, PW>>}
SecDynPartial ==
    {[Cfg0 EXCEPT !.sec = "partial", !.prefDefault = (p = <<"*">>),
                  !.pref = IF p = <<"*">> THEN <<>> ELSE p,
                  !.local = k, !.pw = w, !.app = a, !.srv.list0 = l0, !.srv.required = rq,
                  !.srv.afterPartial = ap] :
        p \in DynPrefs,
        k \in DynKeys \ (IF Big THEN {<<Item("l1", "ed", "-", FALSE, "yes")>>}
                          ELSE {<<Item("l1", "ed", "-", FALSE, "yes")>>,
                                <<Item("l1", "ed", "-", TRUE, "yes")>>}),
        w \in PW3, a \in IF Big THEN PW3 ELSE {"none", "right"}, l0 \in {<<PK, KBD, PW>>, <<PW, KBD, PK>>}, rq \in PartialReq,
        ap \in {"remaining", "all"}}
SecDynOdd ==
    {[Cfg0 EXCEPT !.sec = "odd", !.local = k, !.pw = w, !.srv.list0 = <<PK, PW>>,
                  !.srv.noneOk = o[1], !.srv.pkokWrong = o[2], !.srv.adv = o[3]] :
        k \in {<<>>, <<Item("l1", "ed", "-", TRUE, "srvrejects")>>,
               <<Item("l1", "ed", "-", TRUE, "srvrejects"), Item("l2", "ed", "ok", TRUE, "yes")>>,
               <<Item("l1", "ed", "-", FALSE, "yes"), Item("l2", "ed", "-", TRUE, "yes")>>},
        w \in {"none", "right"},
        o \in {<<FALSE, FALSE, "all">>, <<TRUE, FALSE, "all">>, <<FALSE, TRUE, "all">>,
               <<FALSE, FALSE, "none">>}}

Configs ==
    (IF "order" \in Sections THEN SecOrder ELSE {}) \cup
    (IF "keys" \in Sections THEN SecKeys ELSE {}) \cup
    (IF "rsa" \in Sections THEN SecRsa ELSE {}) \cup
    (IF "kbd" \in Sections THEN SecKbd ELSE {}) \cup
    (IF "mix" \in Sections THEN SecMix ELSE {}) \cup
    (IF "change" \in Sections THEN SecDynChange ELSE {}) \cup
    (IF "partial" \in Sections THEN SecDynPartial ELSE {}) \cup
    (IF "odd" \in Sections THEN SecDynOdd ELSE {})

----------------------------------------------------------------------------
VARIABLES cfg,        \* the configuration (never changes)
          pc,         \* "next" (in try_next_auth) | "wait" (request sent) | "got" (reply arrived) | "done"
          methods,    \* _auth_methods
          keys,       \* _client_keys (key pairs not yet offered)
          needAgent,  \* _get_agent_keys
          saved,      \* _saved_rsa_key
          pwd,         \* _password
          kbdPw,      \* _kbdint_password_auth
          appUsed,    \* the application's responder has offered itself
          cur,        \* the key pair of the running _ClientPublicKeyAuth, with the names sent
          req,        \* the request the server answers next
          rep,        \* the reply the client handles next
          dlg,        \* the dialogue so far
          nfail, sat, kround, kgood,   \* server: failures sent, methods satisfied, kbdint round, answers good
          out,        \* "run" | "success" | "denied" | "proto"
          pwInKbd, pwInPw   \* history: where the one password went
vars == <<cfg, pc, methods, keys, needAgent, saved, pwd, kbdPw, appUsed, cur, req, rep, dlg,
          nfail, sat, kround, kgood, out, pwInKbd, pwInPw>>

Ev(k, a, b, c, l, f) == [k |-> k, a |-> a, b |-> b, c |-> c, l |-> l, f |-> f]
E1(k) == Ev(k, "", "", "", <<>>, FALSE)
NoEv == E1("-")
IsReq(e) == e.k \in {"none", "pkq", "pks", "pw", "kbd"}
MethodOf(e) == CASE e.k \in {"pkq", "pks"} -> PK [] e.k = "pw" -> PW [] e.k \in {"kbd", "resp"} -> KBD
                 [] OTHER -> "none"

\* load_keypairs: certificate first, then the plain key
Expand(items) ==
    LET F[i \in 0..Len(items)] ==
            IF i = 0 THEN <<>>
            ELSE LET it == items[i] IN
                 F[i - 1] \o (IF it.cert = "-" THEN <<>>
                              ELSE <<Kp(it.slot, it.alg, "cert", it.cert = "ok", it.sign)>>)
                          \o <<Kp(it.slot, it.alg, "plain", it.ok, it.sign)>>
    IN F[Len(items)]
AgentKps == IF cfg.hasAgent THEN cfg.agent ELSE <<>>
AllKps == AgentKps \o Expand(cfg.local)      \* the order in which the code offers them

\* _choose_signature_alg + set_sig_algorithm
AdvSet(a) == CASE a = "all" -> {"rsa-sha2-256", "rsa-sha2-512", "ssh-rsa"}
               [] a = "512" -> {"rsa-sha2-512"}
               [] a = "sha1" -> {"ssh-rsa"}
               [] OTHER -> {}
RsaSig == IF "rsa-sha2-256" \in AdvSet(cfg.srv.adv) THEN "rsa-sha2-256"
          ELSE IF "rsa-sha2-512" \in AdvSet(cfg.srv.adv) THEN "rsa-sha2-512"
          ELSE "ssh-rsa"       \* nothing in common / no server-sig-algs: the key's own default
SigOf(kp) == CASE kp.alg = "ed" -> "ssh-ed25519"          \* the algorithm of the signature made
               [] kp.alg = "ec" -> "ecdsa-sha2-nistp256"
               [] OTHER -> RsaSig
IsAgent(kp) == kp.slot \in {"a1", "a2", "a3"}
\* the key pair's sig_algorithm ATTRIBUTE.  It is the signature algorithm except for a
\* certificate listed by the agent while the server advertises no RSA algorithm at all (so
\* that _choose_signature_alg never calls set_sig_algorithm): SSHAgentKeyPair
\* passes sig_algorithm to SSHKeyPair.__init__, which (no certificate object) stores the
\* certificate's algorithm name instead, and nothing overwrites it
SigAttr(kp) == IF kp.alg = "rsa" /\ kp.form = "cert" /\ IsAgent(kp) /\ AdvSet(cfg.srv.adv) = {}
               THEN LegacyRsaCert ELSE SigOf(kp)
\* the key type name sent.  For an RSA certificate: first ssh-rsa-cert-v01@openssh.com, on
\* the second attempt sig_algorithm + "-cert-v01@openssh.com" (for the agent case above this
\* is not a registered name at all - sent as coded, every server refuses it)
NameOf(kp, retry) ==
    IF kp.form = "plain" THEN SigOf(kp)
    ELSE IF kp.alg = "rsa" THEN (IF retry THEN SigAttr(kp) \o CertSuffix ELSE LegacyRsaCert)
    ELSE SigOf(kp) \o CertSuffix

EffPref == IF cfg.prefDefault THEN DefaultPref ELSE cfg.pref
\* _process_userauth_failure: [m for m in preferred_auth if m in auth_methods]; an empty
\* preferred_auth list leaves the server's list (and order) as it is
Filter(list) == IF EffPref = <<>> \/ NoPrefFilter THEN list
                ELSE SelectSeq(EffPref, LAMBDA m : InSeq(m, list))

----------------------------------------------------------------------------
\* the server (deterministic function of cfg and its own counters)
ReqSet == {cfg.srv.required[i] : i \in DOMAIN cfg.srv.required}
ListNow(nf, st) ==
    IF st # {} THEN
        IF cfg.srv.afterPartial = "all" THEN cfg.srv.list0
        ELSE SelectSeq(cfg.srv.list0, LAMBDA m : m \in ReqSet /\ m \notin st)
    ELSE IF cfg.srv.change > 0 /\ nf >= cfg.srv.change THEN cfg.srv.list1
    ELSE cfg.srv.list0
KpAccept(kp, name) ==
    /\ kp.ok
    /\ (kp.alg = "rsa" /\ kp.form = "cert") =>
          CASE cfg.srv.certName = "legacy" -> name = LegacyRsaCert
            [] cfg.srv.certName = "new" -> name # LegacyRsaCert
            [] OTHER -> TRUE
\* a server that advertises RSA signature algorithms accepts RSA signatures made with those
SigOk(kp, sig) == kp.alg # "rsa" \/ AdvSet(cfg.srv.adv) = {} \/ sig \in AdvSet(cfg.srv.adv)
TokGood(t) == t = "app-right" \/ (t = "right" /\ cfg.srv.kbdSecret = "same")
PromptCount(r) == CASE r = "empty" -> 0 [] r = "two" -> 2 [] OTHER -> 1

Init ==
    /\ cfg \in Configs
    /\ pc = "next" /\ methods = <<"none">>           \* _process_service_accept -> try_next_auth
    /\ keys = Expand(cfg.local) /\ needAgent = cfg.hasAgent /\ saved = NoKp
    /\ pwd = cfg.pw /\ kbdPw = FALSE /\ appUsed = FALSE
    /\ cur = [kp |-> NoKp, name |-> "", sig |-> ""]
    /\ req = NoEv /\ rep = NoEv /\ dlg = <<>>
    /\ nfail = 0 /\ sat = {} /\ kround = 0 /\ kgood = TRUE
    /\ out = "run" /\ pwInKbd = FALSE /\ pwInPw = FALSE

Send(e) == /\ req' = e /\ dlg' = Append(dlg, e) /\ pc' = "wait"
SrvVars == <<nfail, sat, kround, kgood>>
CliVars == <<methods, keys, needAgent, saved, pwd, kbdPw, appUsed, cur, pwInKbd, pwInPw>>

\* try_next_auth(next_method=True)
PopMethod == IF PopTwice /\ Len(methods) > 1 THEN Tail(Tail(methods)) ELSE Tail(methods)

\* ---- client, in try_next_auth ----
Denied ==           \* no method left: PermissionDenied
    /\ pc = "next" /\ methods = <<>>
    /\ out' = "denied" /\ pc' = "done"
    /\ UNCHANGED <<cfg, CliVars, req, rep, dlg, SrvVars>>

SendNone ==         \* _ClientNullAuth
    /\ pc = "next" /\ methods # <<>> /\ Head(methods) = "none"
    /\ Send(E1("none"))
    /\ UNCHANGED <<cfg, CliVars, rep, SrvVars, out>>

SkipMethod ==       \* unknown to lookup_client_auth, or a handler without credentials
                    \* (hostbased without host keys, gssapi without GSS): next method
    /\ pc = "next" /\ methods # <<>> /\ Head(methods) \notin {"none", PK, KBD, PW}
    /\ methods' = (IF Head(methods) = UNK THEN Tail(methods) ELSE PopMethod)
    /\ UNCHANGED <<cfg, pc, keys, needAgent, saved, pwd, kbdPw, appUsed, cur, req, rep, dlg,
                   SrvVars, out, pwInKbd, pwInPw>>

\* public_key_auth_requested
PkPool == IF needAgent THEN (IF AgentAppended THEN keys \o AgentKps ELSE AgentKps \o keys)
          ELSE keys
PkExhausted == IF AsCoded THEN PkPool = <<>> ELSE saved = NoKp /\ PkPool = <<>>
PkNoKey ==
    /\ pc = "next" /\ methods # <<>> /\ Head(methods) = PK
    /\ ~cfg.flags.pk \/ PkExhausted
    /\ methods' = PopMethod
    /\ IF cfg.flags.pk THEN keys' = <<>> /\ needAgent' = FALSE ELSE UNCHANGED <<keys, needAgent>>
    /\ UNCHANGED <<cfg, pc, saved, pwd, kbdPw, appUsed, cur, req, rep, dlg, SrvVars, out,
                   pwInKbd, pwInPw>>
PkQuery ==
    /\ pc = "next" /\ methods # <<>> /\ Head(methods) = PK /\ cfg.flags.pk
    /\ ~PkExhausted
    /\ LET retry == saved # NoKp
           kp == IF retry THEN saved ELSE Head(PkPool)
           name == NameOf(kp, retry)
           sig == SigOf(kp)
       IN /\ keys' = IF retry THEN PkPool ELSE Tail(PkPool)
          /\ needAgent' = FALSE
          /\ saved' = IF ~NoRsaRetry /\ name = LegacyRsaCert /\ SigAttr(kp) # "ssh-rsa" THEN kp
                      ELSE NoKp
          /\ cur' = [kp |-> kp, name |-> name, sig |-> sig]
          /\ Send(Ev("pkq", kp.slot, kp.form, name, <<>>, FALSE))
    /\ UNCHANGED <<cfg, methods, pwd, kbdPw, appUsed, rep, SrvVars, out, pwInKbd, pwInPw>>

\* kbdint_auth_requested
KbdOffer == IF ~cfg.flags.kbd THEN "no"
            ELSE IF cfg.app # "none" THEN (IF appUsed THEN "no" ELSE "app")
            ELSE IF pwd # "none" /\ ~kbdPw THEN "password" ELSE "no"
KbdSkip ==
    /\ pc = "next" /\ methods # <<>> /\ Head(methods) = KBD /\ KbdOffer = "no"
    /\ methods' = PopMethod
    /\ UNCHANGED <<cfg, pc, keys, needAgent, saved, pwd, kbdPw, appUsed, cur, req, rep, dlg,
                   SrvVars, out, pwInKbd, pwInPw>>
KbdSend ==
    /\ pc = "next" /\ methods # <<>> /\ Head(methods) = KBD /\ KbdOffer # "no"
    /\ appUsed' = (appUsed \/ KbdOffer = "app")
    /\ kbdPw' = (kbdPw \/ KbdOffer = "password")
    /\ Send(E1("kbd"))
    /\ UNCHANGED <<cfg, methods, keys, needAgent, saved, pwd, cur, rep, SrvVars, out, pwInKbd,
                   pwInPw>>

\* password_auth_requested: allowed if password_auth OR the kbdint password fallback is active
PwAllowed == cfg.flags.pw \/ kbdPw
PwSkip ==
    /\ pc = "next" /\ methods # <<>> /\ Head(methods) = PW
    /\ ~PwAllowed \/ pwd = "none"
    /\ methods' = PopMethod
    /\ UNCHANGED <<cfg, pc, keys, needAgent, saved, pwd, kbdPw, appUsed, cur, req, rep, dlg,
                   SrvVars, out, pwInKbd, pwInPw>>
PwSend ==
    /\ pc = "next" /\ methods # <<>> /\ Head(methods) = PW /\ PwAllowed /\ pwd # "none"
    /\ pwd' = (IF PasswordKept THEN pwd ELSE "none")
    /\ pwInPw' = TRUE
    /\ Send(Ev("pw", pwd, "", "", <<>>, FALSE))
    /\ UNCHANGED <<cfg, methods, keys, needAgent, saved, kbdPw, appUsed, cur, rep, SrvVars, out,
                   pwInKbd>>

\* ---- server ----
Reply(e) == /\ rep' = e /\ dlg' = Append(dlg, e) /\ pc' = "got"
Fail == /\ nfail' = nfail + 1
        /\ Reply(Ev("F", "", "", "", ListNow(nfail + 1, sat), FALSE))
        /\ UNCHANGED <<sat, kround, kgood>>
Succeeded(m) ==
    IF ReqSet = {} \/ ReqSet \subseteq (sat \cup {m})
    THEN Reply(E1("S")) /\ UNCHANGED SrvVars
    ELSE /\ sat' = sat \cup {m}
         /\ Reply(Ev("F", "", "", "", ListNow(nfail, sat \cup {m}), TRUE))
         /\ UNCHANGED <<nfail, kround, kgood>>
Challenge(n) == /\ Reply(Ev("INFO", cfg.srv.kbdRounds[n], "", "", <<>>, FALSE))
Server ==
    /\ pc = "wait"
    /\ LET offered == ListNow(nfail, sat) IN
       CASE req.k = "none" ->
              IF cfg.srv.noneOk THEN Reply(E1("S")) /\ UNCHANGED SrvVars ELSE Fail
         [] req.k = "pkq" ->
              IF InSeq(PK, offered) /\ KpAccept(cur.kp, req.c)
              THEN Reply(Ev("PKOK", "", "", "", <<>>, ~cfg.srv.pkokWrong)) /\ UNCHANGED SrvVars
              ELSE Fail
         [] req.k = "pks" ->
              IF /\ InSeq(PK, offered) /\ KpAccept(cur.kp, req.c) /\ cur.kp.sign # "srvrejects"
                 /\ SigOk(cur.kp, req.l[1])
              THEN Succeeded(PK) ELSE Fail
         [] req.k = "pw" ->
              IF ~InSeq(PW, offered) THEN Fail
              ELSE IF cfg.srv.pwReply = "changereq" THEN Reply(E1("CHG")) /\ UNCHANGED SrvVars
              ELSE IF req.a = "right" THEN Succeeded(PW) ELSE Fail
         [] req.k = "kbd" ->
              IF ~InSeq(KBD, offered) THEN Fail
              ELSE /\ kround' = 1 /\ kgood' = TRUE /\ Challenge(1) /\ UNCHANGED <<nfail, sat>>
         [] req.k = "resp" ->
              LET good == /\ kgood /\ Len(req.l) = PromptCount(cfg.srv.kbdRounds[kround])
                          /\ \A i \in DOMAIN req.l : TokGood(req.l[i])
              IN IF kround < Len(cfg.srv.kbdRounds)
                 THEN /\ kround' = kround + 1 /\ kgood' = good /\ Challenge(kround + 1)
                      /\ UNCHANGED <<nfail, sat>>
                 ELSE IF good THEN Succeeded(KBD) ELSE Fail
    /\ UNCHANGED <<cfg, CliVars, req, out>>

\* ---- client, handling a reply ----
OnFailure ==        \* _process_userauth_failure (partial success: same path, list refreshed)
    /\ pc = "got" /\ rep.k = "F"
    /\ methods' = Filter(rep.l)
    /\ keys' = (IF StopAtFirstFailedKey /\ req.k \in {"pkq", "pks"} THEN <<>> ELSE keys)
    /\ saved' = (IF StopAtFirstFailedKey THEN NoKp ELSE saved)
    /\ pc' = "next"
    /\ UNCHANGED <<cfg, needAgent, pwd, kbdPw, appUsed, cur, req, rep, dlg, SrvVars, out,
                   pwInKbd, pwInPw>>
OnSuccess ==        \* _process_userauth_success
    /\ pc = "got" /\ rep.k = "S"
    /\ out' = "success" /\ pc' = "done"
    /\ UNCHANGED <<cfg, CliVars, req, rep, dlg, SrvVars>>
OnPkOkSign ==       \* _process_public_key_ok -> _send_signed_request
    /\ pc = "got" /\ rep.k = "PKOK" /\ rep.f /\ cur.kp.sign # "agentrefuses"
    /\ Send(Ev("pks", cur.kp.slot, cur.kp.form, cur.name, <<cur.sig>>, TRUE))
    /\ UNCHANGED <<cfg, CliVars, rep, SrvVars, out>>
OnPkOkNoSign ==     \* signing raises ValueError: try_next_auth() - same method, next key
    /\ pc = "got" /\ rep.k = "PKOK" /\ rep.f /\ cur.kp.sign = "agentrefuses"
    /\ pc' = "next"
    /\ UNCHANGED <<cfg, CliVars, req, rep, dlg, SrvVars, out>>
OnPkOkMismatch ==   \* ProtocolError('Key mismatch')
    /\ pc = "got" /\ rep.k = "PKOK" /\ ~rep.f
    /\ out' = "proto" /\ pc' = "done"
    /\ UNCHANGED <<cfg, CliVars, req, rep, dlg, SrvVars>>
\* kbdint_challenge_received
InfoGiveUp ==       \* responses = None
    kbdPw /\ PromptCount(rep.a) > 0 /\ ~(rep.a = "pw" /\ PwAllowed /\ pwd # "none")
InfoAnswer ==
    LET n == PromptCount(rep.a) IN
    IF kbdPw THEN (IF n = 0 THEN <<>> ELSE <<pwd>>)
    ELSE [i \in 1..n |-> "app-" \o cfg.app]
OnInfoAnswer ==
    /\ pc = "got" /\ rep.k = "INFO" /\ ~InfoGiveUp
    /\ LET usesPw == kbdPw /\ PromptCount(rep.a) > 0 IN
       /\ pwd' = (IF usesPw /\ ~PasswordKept THEN "none" ELSE pwd)
       /\ pwInKbd' = (pwInKbd \/ usesPw)
    /\ Send(Ev("resp", "", "", "", InfoAnswer, FALSE))
    /\ UNCHANGED <<cfg, methods, keys, needAgent, saved, kbdPw, appUsed, cur, rep, SrvVars, out,
                   pwInPw>>
OnInfoGiveUp ==     \* responses None: try_next_auth(next_method=True)
    /\ pc = "got" /\ rep.k = "INFO" /\ InfoGiveUp
    /\ methods' = PopMethod /\ pc' = "next"
    /\ UNCHANGED <<cfg, keys, needAgent, saved, pwd, kbdPw, appUsed, cur, req, rep, dlg,
                   SrvVars, out, pwInKbd, pwInPw>>
OnChangeReq ==      \* password_change_requested returns NotImplemented: next method
    /\ pc = "got" /\ rep.k = "CHG"
    /\ methods' = PopMethod /\ pc' = "next"
    /\ UNCHANGED <<cfg, keys, needAgent, saved, pwd, kbdPw, appUsed, cur, req, rep, dlg,
                   SrvVars, out, pwInKbd, pwInPw>>
Done == pc = "done" /\ UNCHANGED vars

Next == \/ Denied \/ SendNone \/ SkipMethod \/ PkNoKey \/ PkQuery \/ KbdSkip \/ KbdSend
        \/ PwSkip \/ PwSend \/ Server \/ OnFailure \/ OnSuccess \/ OnPkOkSign \/ OnPkOkNoSign
        \/ OnPkOkMismatch \/ OnInfoAnswer \/ OnInfoGiveUp \/ OnChangeReq \/ Done
Spec == Init /\ [][Next]_vars /\ WF_vars(Next)

----------------------------------------------------------------------------
\* properties
Reqs == SelectSeq(dlg, IsReq)
ReqBound == 4 + 4 * Len(AllKps) + Len(cfg.srv.kbdRounds)

\* every dialogue ends after finitely many requests (with CHECK_DEADLOCK: and never gets stuck)
Bounded == Len(Reqs) <= ReqBound
Terminates == <>(pc = "done")

\* --- ValidAdmitted
Lists == {cfg.srv.list0} \cup (IF cfg.srv.change > 0 THEN {cfg.srv.list1} ELSE {})
Enabled(m) == CASE m = PK -> cfg.flags.pk [] m = KBD -> cfg.flags.kbd [] OTHER -> cfg.flags.pw
Permitted(m) == Enabled(m) /\ (cfg.prefDefault \/ cfg.pref = <<>> \/ InSeq(m, cfg.pref))
Usable(m) == Permitted(m) /\ \A l \in Lists : InSeq(m, l)
ValidKey == \E i \in DOMAIN AllKps :
               LET kp == AllKps[i] IN
               /\ kp.ok /\ kp.sign = "yes"
               /\ \E retry \in BOOLEAN :         \* under a name the code can send
                     /\ retry => (kp.alg = "rsa" /\ kp.form = "cert" /\ RsaSig # "ssh-rsa")
                     /\ KpAccept(kp, NameOf(kp, retry))
\* the one password is one credential: once presented through one method it is spent
\* (password_auth_requested clears it); StrictConverse drops this exception
ValidPw == /\ cfg.pw = "right" /\ cfg.srv.pwReply = "normal"
           /\ StrictConverse \/ ~pwInKbd
PwAnswerable(r) == /\ Cardinality({i \in DOMAIN r : r[i] = "pw"}) = 1
                   /\ \A i \in DOMAIN r : r[i] \in {"pw", "empty"}
ValidKbdApp == cfg.app = "right"
ValidKbdPw == /\ cfg.app = "none" /\ cfg.pw = "right" /\ cfg.srv.kbdSecret = "same"
              /\ PwAnswerable(cfg.srv.kbdRounds)
              /\ StrictConverse \/ ~pwInPw
Valid(m) == CASE m = PK -> ValidKey [] m = PW -> ValidPw [] OTHER -> ValidKbdApp \/ ValidKbdPw
Premise ==
    /\ ~cfg.srv.pkokWrong
    /\ IF ReqSet = {} THEN \E m \in Real : Usable(m) /\ Valid(m)
       ELSE /\ \A m \in ReqSet : Usable(m) /\ Valid(m)
            /\ (KBD \in ReqSet /\ PW \in ReqSet) => ValidKbdApp     \* one password, one factor
ValidAdmitted == (pc = "done" /\ Premise) => out = "success"
\* and nobody is admitted without the server saying so
SuccessIsServers == out = "success" => dlg[Len(dlg)].k = "S"

\* --- no credential is offered twice
IdxOf(e) == CHOOSE i \in DOMAIN AllKps : AllKps[i].slot = e.a /\ AllKps[i].form = e.b
EachCredentialOnce ==
    /\ \A i, j \in DOMAIN dlg :
          (i < j /\ dlg[i].k = dlg[j].k /\ dlg[i].k \in {"pkq", "pks"}) =>
              <<dlg[i].a, dlg[i].b, dlg[i].c>> # <<dlg[j].a, dlg[j].b, dlg[j].c>>
    /\ Cardinality({i \in DOMAIN dlg : dlg[i].k = "pw" \/
                       (dlg[i].k = "resp" /\ \E n \in DOMAIN dlg[i].l :
                                                 dlg[i].l[n] \in {"right", "wrong"})}) <= 1
    /\ Cardinality({i \in DOMAIN dlg : dlg[i].k = "kbd"}) <= 1
\* --- key pairs are offered in the order agent keys, then client_keys (certificate before its
\*     plain key); the only repetition is the RSA certificate under its second key type name
KeyOrder ==
    \A i, j \in DOMAIN dlg :
       (i < j /\ dlg[i].k = "pkq" /\ dlg[j].k = "pkq") =>
           \/ IdxOf(dlg[i]) < IdxOf(dlg[j])
           \/ /\ IdxOf(dlg[i]) = IdxOf(dlg[j])
              /\ dlg[i].c = LegacyRsaCert /\ dlg[j].c # LegacyRsaCert
AgentFirst ==
    \A i, j \in DOMAIN dlg :
       (dlg[i].k = "pkq" /\ dlg[j].k = "pkq" /\ dlg[i].a \in {"a1", "a2", "a3"}
        /\ dlg[j].a \in {"l1", "l2", "l3"}) => i < j
\* --- a signature is only produced for the key the server just said PK_OK to
SignedOnlyAfterPkOk ==
    \A i \in DOMAIN dlg :
       dlg[i].k = "pks" =>
           /\ i >= 3 /\ dlg[i - 1].k = "PKOK" /\ dlg[i - 1].f /\ dlg[i - 2].k = "pkq"
           /\ <<dlg[i].a, dlg[i].b, dlg[i].c>> = <<dlg[i - 2].a, dlg[i - 2].b, dlg[i - 2].c>>
\* --- NoCredentialLeak: a credential is only presented through a method the server named in
\*     its latest list and preferred_auth permits; the password travels only in a password
\*     request or as the answer to a single password prompt
LastList(i) == LET js == {j \in 1..(i - 1) : dlg[j].k = "F"} IN
               IF js = {} THEN <<"none">>
               ELSE dlg[CHOOSE j \in js : \A k \in js : k <= j].l
PrefPermits(m) == cfg.prefDefault \/ cfg.pref = <<>> \/ InSeq(m, cfg.pref)
NoCredentialLeak ==
    \A i \in DOMAIN dlg :
       /\ IsReq(dlg[i]) => /\ InSeq(MethodOf(dlg[i]), LastList(i))
                           /\ dlg[i].k # "none" => PrefPermits(MethodOf(dlg[i]))
       /\ (dlg[i].k = "resp" /\ \E n \in DOMAIN dlg[i].l : dlg[i].l[n] \in {"right", "wrong"}) =>
              /\ dlg[i - 1].k = "INFO" /\ dlg[i - 1].a = "pw" /\ Len(dlg[i].l) = 1
\* --- methods switched off by public_key_auth / kbdint_auth / password_auth = False are not
\*     used.  As coded there is one exception: once the kbdint password fallback has been
\*     started, password_auth_requested hands the password to the password method although
\*     password_auth is False (StrictDisabled = TRUE states the rule without it)
DisabledUnused ==
    \A i \in DOMAIN dlg :
       /\ dlg[i].k \in {"pkq", "pks"} => cfg.flags.pk
       /\ dlg[i].k = "kbd" => cfg.flags.kbd
       /\ dlg[i].k = "pw" => cfg.flags.pw \/ (~StrictDisabled /\ \E j \in 1..(i - 1) : dlg[j].k = "kbd")

TypeOK == /\ pc \in {"next", "wait", "got", "done"}
          /\ out \in {"run", "success", "denied", "proto"}
          /\ (pc = "done") = (out # "run")

----------------------------------------------------------------------------
\* the table: one row per configuration, printed when its dialogue is over
Row == <<"ROW", cfg, dlg, out, Premise>>
EmitRow == pc = "done" => PrintT(ToString(Row))
=============================================================================
