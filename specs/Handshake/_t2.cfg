CONSTANTS
  KexType = "dh"
  MaxEdits = 1
  VaryCats = {"hostkey"}
  EditListMode = "few"
  TrustAllSet = {TRUE,FALSE}
  HashOmit = {}
  PreferServer = FALSE
  EditMsgs = {"VC","VS","IC","IS","GREQ","GGRP","INIT","REPLY","PUBKEY","SECRET","DONE","NKS","NKC"}
  EditFields = {"v","eol","banner","pad","cookie","kex","hostkey","enc_cs","enc_sc","mac_cs","mac_sc","cmp_cs","cmp_sc","ff","strict","rest","req","grp","e","f","ks","sig","kt","enc"}
  Emit = FALSE
SPECIFICATION Spec
CHECK_DEADLOCK FALSE
INVARIANT AgreeOrFail
INVARIANT BothOrNeither
INVARIANT NoDowngrade
INVARIANT FirstClientPref
INVARIANT EditDetected
INVARIANT Completion
