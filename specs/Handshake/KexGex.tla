------------------------------- MODULE KexGex -------------------------------
(***************************************************************************)
(* Parameter negotiation of diffie-hellman-group-exchange (RFC 4419 and    *)
(* the old request that carries only n) as a decision model.               *)
(*                                                                         *)
(* Sources: kex_dh.py _KexDHGex._send_request (min, n, max),               *)
(* _process_request (the server's choice from _dh_gex_groups),             *)
(* _process_group (what the client does with p, g), _KexDHBase             *)
(* ._compute_client_shared / _compute_server_shared (range of f / e),      *)
(* _compute_hash (min || n || max || p || g in the exchange hash).         *)
(*                                                                         *)
(* Three decisions, each a function of its inputs:                         *)
(*   Pick     the group size the server offers for a request               *)
(*   Accept   whether the client goes on with the group it is offered      *)
(*   InRange  whether a role goes on with the peer's public value          *)
(* `Mode` selects the rule or one of the deliberately wrong variants.      *)
(***************************************************************************)
EXTENDS Naturals, FiniteSets, TLC

CONSTANTS
    Sizes,      \* values min / n / max range over (bits)
    OfferSizes, \* bit lengths of a p the client may be offered
    GroupSets,  \* group sizes the server has: one of these sets
    Mode,       \* "rule" | "NoUpperBoundCheck" | "PreferredIgnored" |
                \* "MinIgnored" | "FallbackSmallest" | "ClientNoBounds" |
                \* "ClientNoDegenerate" | "RangeInclusive"
    Emit

FAIL == 0
Styles == {"new", "old"}        \* old: only n travels (max 8192, no min)
PKinds == {"prime", "even", "one"}
GKinds == {"ok", "zero", "one", "pm1"}
VKinds == {"ok", "zero", "one", "pm1", "p", "above"}

VARIABLES kind, style, mn, n, mx, groups, bits, pk, gk, vk
vars == <<kind, style, mn, n, mx, groups, bits, pk, gk, vk>>

Init ==
    /\ style \in Styles /\ mn \in Sizes /\ n \in Sizes /\ mx \in Sizes
    /\ (style = "old" => mn = 1024 /\ mx = 8192)
    /\ \/ /\ kind = "pick" /\ groups \in GroupSets
          /\ bits = 0 /\ pk = "prime" /\ gk = "ok" /\ vk = "ok"
       \/ /\ kind = "accept" /\ groups = {} /\ style = "new"
          \* the request the client really sends (KEX_DH_GEX_MIN / PREFERRED
          \* / MAX_SIZE)
          /\ mn = 1024 /\ n = 2048 /\ mx = 8192
          /\ bits \in OfferSizes /\ pk \in PKinds /\ gk \in GKinds /\ vk = "ok"
       \/ /\ kind = "range" /\ groups = {} /\ style = "new"
          /\ mn = 1024 /\ n = 2048 /\ mx = 8192
          /\ bits = 2048 /\ pk = "prime" /\ gk = "ok" /\ vk \in VKinds
Next == UNCHANGED vars
Spec == Init /\ [][Next]_vars

Min(S) == CHOOSE x \in S : \A y \in S : x <= y
Max(S) == CHOOSE x \in S : \A y \in S : x >= y

(* the smallest available group >= n that is <= max (and >= min), else the *)
(* largest one within [min, max], else the exchange fails                  *)
Pick(m) ==
    LET lo == IF m = "MinIgnored" \/ style = "old" THEN 0 ELSE mn
        hi == IF m = "NoUpperBoundCheck" THEN 1000000 ELSE mx
        C  == {s \in groups : lo <= s /\ s <= hi}
        up == {s \in C : s >= n}
    IN  IF C = {} THEN (IF m = "FallbackSmallest" /\ groups # {}
                        THEN Min(groups) ELSE FAIL)
        ELSE IF m = "PreferredIgnored" THEN Min(C)
        ELSE IF up # {} THEN Min(up) ELSE Max(C)

(* the client goes on only with a sound group of a size it asked for *)
Accept(m) ==
    /\ (m = "ClientNoBounds" \/ (mn <= bits /\ bits <= mx))
    /\ (m = "ClientNoDegenerate" \/ (pk = "prime" /\ gk = "ok"))

(* 1 < e, f < p-1 *)
InRange(m) ==
    \/ vk = "ok"
    \/ m = "RangeInclusive" /\ vk \in {"one", "pm1"}

ServerPicksWithinBounds == kind = "pick" => Pick(Mode) = Pick("rule")
ClientRefusesOutOfBounds == kind = "accept" => (Accept(Mode) <=> Accept("rule"))
PeerValueRange == kind = "range" => (InRange(Mode) <=> InRange("rule"))

Emitted ==
    Emit => PrintT(<<"row", kind, style, mn, n, mx, groups, bits, pk, gk, vk,
                     Pick("rule"), Accept("rule"), InRange("rule")>>)
=============================================================================
