----------------------------- MODULE HostKeyAlg -----------------------------
(***************************************************************************)
(* Negotiation of the host key / signature algorithm (RFC 4253 7.1: the    *)
(* first algorithm on the client's list for which the server has a key)    *)
(* for a listener whose host key pairs support several algorithms and are  *)
(* shared by all its connections.                                          *)
(*                                                                         *)
(* Sources: connection.py SSHServerConnection.choose_server_host_key       *)
(* (called from _process_kexinit), options.server_host_keys (one dict      *)
(* algorithm -> SSHKeyPair per listener, the pair objects are shared),     *)
(* public_key.py SSHKeyPair.set_sig_algorithm / SSHLocalKeyPair.sign,      *)
(* kex_dh.py _process_init -> _perform_reply (host_key.sign(h)).           *)
(*                                                                         *)
(* A connection takes two server-side steps: Choose (its KEXINIT is        *)
(* processed) and Sign (its KEX INIT is processed).  Steps of different    *)
(* connections interleave freely when Interleave is TRUE.                  *)
(***************************************************************************)
EXTENDS Naturals, Sequences, FiniteSets, TLC

CONSTANTS
    ServerKeySets,  \* the listener's key set is one of these sets of keys
    ClientAlgs,     \* alphabet of the clients' host key algorithm lists
    MaxLen,         \* length of a client list
    NConn,          \* connections made to the listener, one after another
    Interleave,     \* TRUE: Choose/Sign steps of different connections mix
    Mode,           \* "percopy": the algorithm chosen belongs to the
                    \*    connection (design);
                    \* "shared": Choose writes it into the shared key pair,
                    \*    Sign reads the pair (choose_server_host_key with
                    \*    `if alg != keypair.algorithm`);
                    \* "sticky": the pair is only rewritten when its current
                    \*    algorithm is not on the client's list
    Emit

(* key -> algorithm names it is offered under, in KEXINIT order *)
AlgsOf(k) == CASE k = "ed"      -> <<"ed">>
               [] k = "ec"      -> <<"ec">>
               [] k = "rsa"     -> <<"rsa256", "rsa512", "rsa1">>
               [] k = "rsacert" -> <<"c256", "c512", "c1">>
               [] k = "edcert"  -> <<"ced">>
(* algorithm that signs when this name was negotiated *)
SigOf(a) == CASE a = "c256" -> "rsa256" [] a = "c512" -> "rsa512"
              [] a = "c1" -> "rsa1" [] a = "ced" -> "ed" [] OTHER -> a
(* a freshly loaded pair: key.algorithm, i.e. ssh-rsa for every RSA pair *)
InitialSig(k) == CASE k \in {"rsa", "rsacert"} -> "rsa1"
                   [] k \in {"ed", "edcert"} -> "ed" [] OTHER -> "ec"
(* SSHKeyPair.algorithm of a certificate pair never changes *)
CertName(k) == CASE k = "rsacert" -> "c1" [] k = "edcert" -> "ced"
                 [] OTHER -> "none"

InSeq(a, s) == \E i \in 1..Len(s) : s[i] = a
Lists == {l \in UNION {[1..n -> ClientAlgs] : n \in 1..MaxLen} :
             \A i, j \in 1..Len(l) : i # j => l[i] # l[j]}

VARIABLES
    keys,       \* the listener's key set
    sig,        \* shared pair state under each rule: mode -> key -> alg
    conns       \* <<[list, st, alg, key, signedBy]>> in order of arrival

vars == <<keys, sig, conns>>
Modes == {"percopy", "shared", "sticky"}
AllKeys == {"ed", "ec", "rsa", "rsacert", "edcert"}

KeyOf(a) == CHOOSE k \in keys : InSeq(a, AlgsOf(k))
Has(a) == \E k \in keys : InSeq(a, AlgsOf(k))
(* the statement: first on the client's list that the server has a key for *)
Min(S) == CHOOSE i \in S : \A j \in S : i <= j
Negotiated(l) == LET idx == {i \in 1..Len(l) : Has(l[i])}
                 IN  IF idx = {} THEN "FAIL" ELSE l[Min(idx)]

NoSigned == [m \in Modes |-> "none"]
Init ==
    /\ keys \in ServerKeySets
    /\ sig = [m \in Modes |-> [k \in AllKeys |-> InitialSig(k)]]
    /\ conns = <<>>

Finished(c) == c.st \in {"signed", "failed"}

Open(l) ==
    /\ Len(conns) < NConn
    /\ Interleave \/ \A i \in 1..Len(conns) : Finished(conns[i])
    /\ conns' = Append(conns, [list |-> l, st |-> "open", alg |-> "none",
                               key |-> "none", signedBy |-> NoSigned])
    /\ UNCHANGED <<keys, sig>>

(* what Choose does to the shared pair under each rule *)
AfterChoose(m, cur, a, k, l) ==
    CASE m = "percopy" -> cur
      [] m = "shared" ->
           \* `if alg != keypair.algorithm`: for a plain pair algorithm
           \* follows sig_algorithm, for a certificate pair it is the
           \* certificate's name and never changes
           IF a = CertName(k) THEN cur ELSE [cur EXCEPT ![k] = SigOf(a)]
      [] OTHER ->
           IF InSeq(cur[k], l) THEN cur ELSE [cur EXCEPT ![k] = SigOf(a)]

Choose(i) ==
    /\ conns[i].st = "open"
    /\ LET a == Negotiated(conns[i].list) IN
       IF a = "FAIL"
       THEN /\ conns' = [conns EXCEPT ![i].st = "failed"]
            /\ UNCHANGED sig
       ELSE LET k == KeyOf(a) IN
            /\ conns' = [conns EXCEPT ![i].st = "chosen", ![i].alg = a,
                                      ![i].key = k]
            /\ sig' = [m \in Modes |->
                          AfterChoose(m, sig[m], a, k, conns[i].list)]
    /\ UNCHANGED keys

Sign(i) ==
    /\ conns[i].st = "chosen"
    /\ conns' = [conns EXCEPT ![i].st = "signed",
                     ![i].signedBy = [m \in Modes |->
                          IF m = "percopy" THEN SigOf(conns[i].alg)
                          ELSE sig[m][conns[i].key]]]
    /\ UNCHANGED <<keys, sig>>

Next == \/ \E l \in Lists : Open(l)
        \/ \E i \in 1..Len(conns) : Choose(i) \/ Sign(i)
Spec == Init /\ [][Next]_vars

Signed(i) == conns[i].signedBy[Mode]

(* each exchange hash is signed with the negotiated algorithm, whatever    *)
(* other connections of the listener did before or in between              *)
SigAlgNegotiated ==
    \A i \in 1..Len(conns) :
        conns[i].st = "signed" =>
            Signed(i) = SigOf(Negotiated(conns[i].list))
FailOnlyIfNoCommon ==
    \A i \in 1..Len(conns) :
        conns[i].st = "failed" => \A j \in 1..Len(conns[i].list) :
                                      ~Has(conns[i].list[j])
(* the signature algorithm is one the client offered (what a strict client *)
(* would insist on)                                                        *)
ClientOffered ==
    \A i \in 1..Len(conns) :
        conns[i].st = "signed" =>
            \E j \in 1..Len(conns[i].list) :
                SigOf(conns[i].list[j]) = Signed(i)

AllDone == Len(conns) = NConn /\ \A i \in 1..NConn : Finished(conns[i])
Emitted ==
    (Emit /\ AllDone) =>
        PrintT(<<"hist", keys, [i \in 1..NConn |-> conns[i].list],
                 [i \in 1..NConn |-> IF conns[i].st = "signed"
                                     THEN conns[i].signedBy ELSE NoSigned]>>)
NeverSigned == \A i \in 1..Len(conns) : conns[i].st # "signed"
=============================================================================
