----------------------------- MODULE Handshake -----------------------------
(***************************************************************************)
(* The SSH transport handshake of asyncssh with symbolic cryptography and  *)
(* an on-path adversary that edits cleartext handshake messages.           *)
(*                                                                         *)
(* Sources: connection.py _send_version/_recv_version (versions as sent /  *)
(* as received), _send_kexinit (own KEXINIT payload stored as sent),       *)
(* _process_kexinit (peer's payload stored as received, negotiation with   *)
(* _choose_alg, encryption_needs_mac, choose_server_host_key),             *)
(* get_hash_prefix, send_newkeys; kex_dh.py _compute_hash, range checks,   *)
(* _process_init/_process_reply/_process_request/_process_group;           *)
(* kex_rsa.py.                                                             *)
(*                                                                         *)
(* Symbolic values.  A hash is the record of its inputs; a signature is    *)
(* [key, h]; a public value is [who, grp]; the shared secret computed by   *)
(* side x from a received public value is [a, b, grp] and equals the       *)
(* peer's only if the value received is the one the peer sent (in the      *)
(* same group); an edited public value gives a secret the peer does not    *)
(* have.  The adversary holds key "hkX" and no other private key and       *)
(* never learns a shared secret of the two honest sides, so it cannot      *)
(* produce a signature over their exchange hash.                           *)
(*                                                                         *)
(* The order of deliveries is fixed (each side's result depends only on    *)
(* what it receives); the adversary picks up to MaxEdits field edits.      *)
(***************************************************************************)
EXTENDS Naturals, Sequences, FiniteSets, TLC

CONSTANTS
    KexType,        \* "dh" (fixed group DH, ECDH, hybrids) | "gex" | "rsa"
    MaxEdits,       \* edits the adversary may make in one handshake
    VaryCats,       \* categories whose preference lists range over AllLists
    VaryMode,       \* "product": all of them at once; "oneof": one at a time
    EditListMode,   \* "all" | "single" | "few": values the adversary may
                    \* write into a name-list
    TrustAllSet,    \* {FALSE}: client trusts only "hk"; TRUE: known_hosts=None
    HashOmit,       \* sensitivity: hash inputs left out (normally {})
    PreferServer,   \* sensitivity: _choose_alg walks the server's list
    ReportAtHostKey,  \* sensitivity: the caller waiting for the server's host
                    \* key is answered when the key was decoded and accepted,
                    \* before H is computed and the signature verified
    ServerSkipsBanner,  \* sensitivity: the server, too, ignores lines that
                    \* arrive before the peer's identification string
    SignBlind,      \* sensitivity: a received mpint is read as unsigned, so
                    \* an encoding that denotes a negative number (sign octet
                    \* stripped) is taken for the sender's value
    EditMsgs,       \* messages the adversary may touch
    EditFields,     \* fields the adversary may touch
    Emit            \* TRUE: print one line per finished handshake

Names == {"strong", "weak", "other"}
AEAD  == {"other"}          \* ciphers that need no MAC (encryption_needs_mac)
Side  == {"c", "s"}
Cats  == {"kex", "hostkey", "enc", "mac", "cmp"}
ListFields == <<"kex", "hostkey", "enc_cs", "enc_sc", "mac_cs", "mac_sc",
                "cmp_cs", "cmp_sc">>
ListFieldSet == {ListFields[i] : i \in 1..Len(ListFields)}
CatOf(f) == CASE f = "kex" -> "kex" [] f = "hostkey" -> "hostkey"
              [] f \in {"enc_cs", "enc_sc"} -> "enc"
              [] f \in {"mac_cs", "mac_sc"} -> "mac"
              [] OTHER -> "cmp"

AllLists == {<<a>> : a \in Names} \cup
            {l \in {<<a, b>> : a \in Names, b \in Names} : l[1] # l[2]}
Fixed == <<"strong">>
EditLists == CASE EditListMode = "all" -> AllLists
               [] EditListMode = "single" -> {<<a>> : a \in Names}
               [] OTHER -> {<<"weak">>, <<"weak", "strong">>,
                            <<"other", "weak">>}
ListsFor(cat) == IF cat \in VaryCats THEN AllLists ELSE {Fixed}
CfgSet == [kex : ListsFor("kex"), hostkey : ListsFor("hostkey"),
           enc : ListsFor("enc"), mac : ListsFor("mac"), cmp : ListsFor("cmp")]
OnlyFor(cat, c) == IF c = cat THEN AllLists ELSE {Fixed}
CfgSetOne(cat) == [kex : OnlyFor(cat, "kex"), hostkey : OnlyFor(cat, "hostkey"),
                   enc : OnlyFor(cat, "enc"), mac : OnlyFor(cat, "mac"),
                   cmp : OnlyFor(cat, "cmp")]
CfgPairs == IF VaryMode = "oneof" /\ VaryCats # {}
            THEN UNION {[Side -> CfgSetOne(cat)] : cat \in VaryCats}
            ELSE [Side -> CfgSet]

Flights == CASE KexType = "dh"  -> <<"VC", "VS", "IC", "IS", "INIT", "REPLY",
                                     "NKS", "NKC">>
             [] KexType = "gex" -> <<"VC", "VS", "IC", "IS", "GREQ", "GGRP",
                                     "INIT", "REPLY", "NKS", "NKC">>
             [] KexType = "rsa" -> <<"VC", "VS", "IC", "IS", "PUBKEY",
                                     "SECRET", "DONE", "NKS", "NKC">>
End == Len(Flights) + 2
Sender(m) == IF m \in {"VC", "IC", "INIT", "GREQ", "SECRET", "NKC"}
             THEN "c" ELSE "s"
Peer(x) == IF x = "c" THEN "s" ELSE "c"

Fields(m) ==
    \* the identification exchange (RFC 4253 4.2) is edited cleartext like
    \* the packets: lines inserted before the version line, bytes inserted
    \* behind it, CR LF -> LF, the line delivered in pieces
    CASE m \in {"VC", "VS"} -> <<"v", "eol", "banner", "tail", "split">>
      [] m \in {"IC", "IS"} -> <<"cookie", "kex", "hostkey", "enc_cs",
                                 "enc_sc", "mac_cs", "mac_sc", "cmp_cs",
                                 "cmp_sc", "ff", "strict", "rest", "pad">>
      [] m = "GREQ" -> <<"req", "pad">>
      [] m = "GGRP" -> <<"grp", "menc", "pad">>
      [] m = "INIT" -> <<"e", "menc", "pad">>
      [] m = "REPLY" -> <<"ks", "f", "sig", "menc", "pad">>
      [] m = "PUBKEY" -> <<"ks", "kt", "pad">>
      [] m = "SECRET" -> <<"enc", "pad">>
      [] m = "DONE" -> <<"sig", "pad">>
      [] OTHER -> <<"pad">>
(* bytes that are in no hash input and in no verified value: random        *)
(* padding of a cleartext packet, CR before LF of a version line, banner   *)
(* lines a server may send before its version; another encoding of the    *)
(* same mpint value (RFC 4253 8 hashes the values e, f, p, g)              *)
Unbound == {"eol", "banner", "pad", "menc", "split"}
(* only the SERVER may send lines before its version string: the client    *)
(* skips them and does not hash them; the server refuses anything before   *)
(* the client's version line                                               *)
Tolerated(ed) == ed.field \in Unbound /\ ~(ed.field = "banner" /\ ed.msg = "VC")

-----------------------------------------------------------------------------
NoKI == [cookie |-> "none", kex |-> <<>>, hostkey |-> <<>>, enc_cs |-> <<>>,
         enc_sc |-> <<>>, mac_cs |-> <<>>, mac_sc |-> <<>>, cmp_cs |-> <<>>,
         cmp_sc |-> <<>>, ff |-> FALSE, strict |-> FALSE, rest |-> "none",
         pad |-> "p0"]
NoCh == [kex |-> "none", hostkey |-> "none", enc_cs |-> "none",
         enc_sc |-> "none", mac_cs |-> "none", mac_sc |-> "none",
         cmp_cs |-> "none", cmp_sc |-> "none"]
NoKS  == [key |-> "none", alg |-> "none"]
NoPub == [who |-> "none", grp |-> "none"]
NoK   == [a |-> "none", b |-> "none", grp |-> "none"]
NoX   == [a |-> "none", b |-> "none"]
NoH   == [vc |-> "none", vs |-> "none", ic |-> NoKI, is |-> NoKI, ks |-> NoKS,
          extra |-> NoX, e |-> NoPub, f |-> NoPub, k |-> NoK]
NoSig == [key |-> "none", h |-> NoH]

VARIABLES
    cfg,        \* cfg[x][cat]: preference list of side x (its configuration)
    trustAll,   \* client accepts any host key (known_hosts=None)
    side,       \* side[x]: what x stores
    pc,         \* index of the next flight; End-1 = confirm; End = finished
    edits       \* history: <<[msg, field, val]>> edits made so far

vars == <<cfg, trustAll, side, pc, edits>>

KI(x) == [cookie |-> "ck", kex |-> cfg[x].kex, hostkey |-> cfg[x].hostkey,
          enc_cs |-> cfg[x].enc, enc_sc |-> cfg[x].enc,
          mac_cs |-> cfg[x].mac, mac_sc |-> cfg[x].mac,
          cmp_cs |-> cfg[x].cmp, cmp_sc |-> cfg[x].cmp,
          ff |-> FALSE, strict |-> TRUE, rest |-> "r0", pad |-> "p0"]

Blank(x) == [st |-> "run", vown |-> IF x = "c" THEN "vc" ELSE "vs", vpeer |-> "none",
             kiown |-> KI(x), kipeer |-> NoKI, ch |-> NoCh,
             grp |-> IF KexType = "dh" THEN "fixed" ELSE "none",
             ks |-> NoKS, extra |-> NoX, e |-> NoPub, f |-> NoPub,
             k |-> NoK, h |-> NoH, sig |-> NoSig,
             \* rep: an API entry point (connect(), get_server_host_key())
             \* has been told the host key / success; ver: H was computed
             \* and the host signature verified
             rep |-> FALSE, ver |-> FALSE]

Init ==
    /\ cfg \in CfgPairs
    /\ trustAll \in TrustAllSet
    /\ side = [x \in Side |-> Blank(x)]
    /\ pc = 1
    /\ edits = <<>>

-----------------------------------------------------------------------------
(* _choose_alg: the earliest algorithm on the client's list which the     *)
(* server supports                                                         *)
InSeq(a, s) == \E i \in 1..Len(s) : s[i] = a
Min(S) == CHOOSE i \in S : \A j \in S : i <= j
FirstCommon(cl, sl) ==
    LET idx == {i \in 1..Len(cl) : InSeq(cl[i], sl)}
    IN  IF idx = {} THEN "FAIL" ELSE cl[Min(idx)]
ChooseAlg(cl, sl) == IF PreferServer THEN FirstCommon(sl, cl)
                     ELSE FirstCommon(cl, sl)

(* negotiation as done by side x from its own KEXINIT as sent and the      *)
(* peer's as received (_process_kexinit)                                   *)
CL(x, own, peer, f) == IF x = "c" THEN own[f] ELSE peer[f]
SL(x, own, peer, f) == IF x = "c" THEN peer[f] ELSE own[f]
Negotiate(x, own, peer) ==
    LET pick(f) == ChooseAlg(CL(x, own, peer, f), SL(x, own, peer, f))
        ecs == pick("enc_cs")
        esc == pick("enc_sc")
    IN  [kex     |-> pick("kex"),
         \* choose_server_host_key: first on the client's list for which
         \* the server holds a key; the client learns it from K_S
         hostkey |-> IF x = "s"
                     THEN FirstCommon(peer.hostkey, own.hostkey)
                     ELSE "none",
         enc_cs  |-> ecs, enc_sc |-> esc,
         mac_cs  |-> IF ecs \in AEAD THEN ecs ELSE pick("mac_cs"),
         mac_sc  |-> IF esc \in AEAD THEN esc ELSE pick("mac_sc"),
         cmp_cs  |-> pick("cmp_cs"), cmp_sc |-> pick("cmp_sc")]
NegFailed(ch) == \E i \in 1..Len(ListFields) : ch[ListFields[i]] = "FAIL"

(* exchange hash as side x computes it                                     *)
HashOf(x, r) ==
    LET mine(a, b) == IF x = "c" THEN a ELSE b
    IN [vc |-> IF "VC" \in HashOmit THEN "omitted" ELSE mine(r.vown, r.vpeer),
        vs |-> IF "VS" \in HashOmit THEN "omitted" ELSE mine(r.vpeer, r.vown),
        ic |-> IF "IC" \in HashOmit THEN NoKI ELSE mine(r.kiown, r.kipeer),
        is |-> IF "IS" \in HashOmit THEN NoKI ELSE mine(r.kipeer, r.kiown),
        ks |-> IF "KS" \in HashOmit THEN NoKS ELSE r.ks,
        extra |-> IF "GEX" \in HashOmit THEN NoX ELSE r.extra,
        e  |-> IF "E" \in HashOmit THEN NoPub ELSE r.e,
        f  |-> IF "F" \in HashOmit THEN NoPub ELSE r.f,
        k  |-> r.k]

Shared(x, pub, grp) ==
    IF pub.who = Peer(x) /\ pub.grp = grp
    THEN [a |-> "c", b |-> "s", grp |-> grp]
    ELSE [a |-> x, b |-> pub.who, grp |-> grp]

Trusted(ks) == trustAll \/ ks.key = "hk"
Verify(ks, h, sig) == sig.key = ks.key /\ sig.h = h

Fail(r) == [r EXCEPT !.st = "fail"]
(* a group whose modulus travels without its sign octet denotes a negative *)
(* number; read unsigned it is the group that was sent                     *)
IsNeg(g) == g \in {"gNeg14", "gNegAlt"}
Unsigned(g) == CASE g = "gNeg14" -> "g14" [] g = "gNegAlt" -> "gAlt"
                 [] OTHER -> g
HashedKI(ki) == [ki EXCEPT !.pad = "p0"]

-----------------------------------------------------------------------------
(* what the sender puts on the wire *)
Content(m) ==
    LET r == side[Sender(m)] IN
    CASE m \in {"VC", "VS"} -> [v |-> r.vown, eol |-> "crlf", banner |-> "no",
                                tail |-> "no", split |-> "no"]
      [] m \in {"IC", "IS"} -> r.kiown
      [] m = "GREQ"   -> [req |-> "req", pad |-> "p0"]
      [] m = "GGRP"   -> [grp |-> r.grp, menc |-> "canon", pad |-> "p0"]
      [] m = "INIT"   -> [e |-> r.e, menc |-> "canon", pad |-> "p0"]
      [] m = "REPLY"  -> [ks |-> r.ks, f |-> r.f, sig |-> r.sig,
                          menc |-> "canon", pad |-> "p0"]
      [] m = "PUBKEY" -> [ks |-> r.ks, kt |-> r.extra.a, pad |-> "p0"]
      [] m = "SECRET" -> [enc |-> r.e, pad |-> "p0"]
      [] m = "DONE"   -> [sig |-> r.sig, pad |-> "p0"]
      [] OTHER        -> [pad |-> "p0"]

(* the server finishes its half: K, H, signature; it sends NEWKEYS *)
ServerFinish(r) ==
    LET r1 == [r EXCEPT !.ks = [key |-> "hk", alg |-> r.ch.hostkey]]
        h  == HashOf("s", r1)
    IN  [r1 EXCEPT !.h = h, !.sig = [key |-> "hk", h |-> h], !.st = "nk"]

(* the client finishes: host key trusted, signature over its own H *)
ClientFinish(r, sig) ==
    LET h == HashOf("c", r)
    IN  IF ~Trusted(r.ks) \/ ~Verify(r.ks, h, sig)
        THEN [Fail(r) EXCEPT !.rep = ReportAtHostKey /\ Trusted(r.ks)]
        ELSE [r EXCEPT !.h = h, !.st = "nk", !.rep = TRUE, !.ver = TRUE,
                       !.ch = [r.ch EXCEPT !.hostkey = r.ks.alg]]

AfterKexinit(x, r, c) ==
    LET ch == Negotiate(x, r.kiown, c)
        r1 == [r EXCEPT !.kipeer = HashedKI(c), !.ch = ch]
    IN  IF NegFailed(ch) THEN Fail(r1)
        \* first_kex_packet_follows with a wrong guess: the next kex packet
        \* is dropped and the exchange stalls until the login timer
        ELSE IF c.ff /\ ch.kex # c.kex[1] THEN Fail(r1)
        ELSE IF x = "c" /\ KexType = "dh"
             THEN [r1 EXCEPT !.e = [who |-> "c", grp |-> "fixed"]]
        ELSE IF x = "s" /\ KexType = "rsa"
             THEN [r1 EXCEPT !.ks = [key |-> "hk", alg |-> ch.hostkey],
                             !.extra = [a |-> "kt", b |-> "none"]]
        ELSE r1

(* the receiver's processing of message m with content c *)
Recv(m, c, r) ==
    CASE m \in {"VC", "VS"} ->
            IF \/ c.v = "vBad"
               \/ c.tail = "bytes"      \* garbage where a packet must start
               \/ m = "VC" /\ c.banner = "lines" /\ ~ServerSkipsBanner
            THEN Fail(r) ELSE [r EXCEPT !.vpeer = c.v]
      [] m = "IC" -> AfterKexinit("s", r, c)
      [] m = "IS" -> AfterKexinit("c", r, c)
      [] m = "GREQ" ->
            LET g == IF c.req = "req" THEN "g14" ELSE "gAlt"
            IN  [r EXCEPT !.grp = g, !.extra = [a |-> c.req, b |-> g]]
      [] m = "GGRP" ->
            LET g == Unsigned(c.grp) IN
            IF c.grp = "gBad" \/ (IsNeg(c.grp) /\ ~SignBlind) THEN Fail(r)
            ELSE [r EXCEPT !.grp = g, !.extra = [a |-> "req", b |-> g],
                           !.e = [who |-> "c", grp |-> g]]
      [] m = "INIT" ->
            LET e == IF c.e.who = "neg" THEN [c.e EXCEPT !.who = "c"]
                     ELSE c.e IN
            IF c.e.who = "invalid" \/ (c.e.who = "neg" /\ ~SignBlind)
            THEN Fail(r)
            ELSE ServerFinish([r EXCEPT !.e = e,
                                        !.f = [who |-> "s", grp |-> r.grp],
                                        !.k = Shared("s", e, r.grp)])
      [] m = "REPLY" ->
            LET f == IF c.f.who = "neg" THEN [c.f EXCEPT !.who = "s"]
                     ELSE c.f IN
            IF c.f.who = "invalid" \/ (c.f.who = "neg" /\ ~SignBlind)
            THEN Fail(r)
            ELSE ClientFinish([r EXCEPT !.ks = c.ks, !.f = f,
                                        !.k = Shared("c", f, r.grp)], c.sig)
      [] m = "PUBKEY" ->
            IF c.kt = "ktBad" THEN Fail(r)
            ELSE [r EXCEPT !.ks = c.ks, !.extra = [a |-> c.kt, b |-> "none"],
                           !.e = [who |-> "c", grp |-> c.kt],
                           !.k = [a |-> "k", b |-> "c", grp |-> "rsa"]]
      [] m = "SECRET" ->
            IF c.enc.grp # "kt" \/ c.enc.who = "invalid" THEN Fail(r)
            ELSE ServerFinish([r EXCEPT !.e = c.enc,
                        !.k = [a |-> "k", b |-> c.enc.who, grp |-> "rsa"]])
      [] m = "DONE" -> ClientFinish(r, c.sig)
      [] OTHER -> r

(* values the adversary can write into field fld (current value cur) *)
Vals(fld, cur) ==
    CASE fld = "v"      -> {"vX", "vBad"}
      [] fld = "eol"    -> {"lf"}
      [] fld = "banner" -> {"lines"}
      [] fld = "tail"   -> {"bytes"}
      [] fld = "split"  -> {"pieces"}
      [] fld = "pad"    -> {"pX"}
      [] fld = "cookie" -> {"ckX"}
      [] fld \in ListFieldSet -> EditLists \ {cur}
      [] fld = "ff"     -> {TRUE}
      [] fld = "strict" -> {FALSE}
      [] fld = "rest"   -> {"rX"}
      [] fld = "req"    -> {"reqX"}
      [] fld = "grp"    -> ({"gAlt", "gBad"} \ {cur}) \cup
                           {IF cur = "g14" THEN "gNeg14" ELSE "gNegAlt"}
      [] fld = "menc"   -> {"noncanon"}
      [] fld \in {"e", "f"} -> {[who |-> "adv", grp |-> cur.grp],
                                [who |-> "invalid", grp |-> "none"],
                                [who |-> "neg", grp |-> cur.grp]}
      [] fld = "ks"     -> {[key |-> "hkX", alg |-> cur.alg]}
      [] fld = "sig"    -> {[key |-> "hkX", h |-> NoH],
                            [key |-> cur.key, h |-> NoH]}
      [] fld = "kt"     -> {"ktX", "ktBad"}
      [] fld = "enc"    -> {[who |-> "adv", grp |-> "kt"],
                            [who |-> "invalid", grp |-> "none"]}

Dead == \E x \in Side : side[x].st = "fail"
Budget == MaxEdits - Len(edits)
CanEdit(m, f) == m \in EditMsgs /\ f \in EditFields

Handle(m, c) ==
    /\ side' = [side EXCEPT ![Peer(Sender(m))] = Recv(m, c, @)]
    /\ pc' = pc + 1
    /\ UNCHANGED <<cfg, trustAll>>

Deliver0 ==
    /\ pc <= Len(Flights) /\ ~Dead
    /\ Handle(Flights[pc], Content(Flights[pc]))
    /\ UNCHANGED edits

Deliver1 ==
    /\ pc <= Len(Flights) /\ ~Dead /\ Budget >= 1
    /\ LET m == Flights[pc]  c == Content(m)  F == Fields(m) IN
       \E i \in 1..Len(F) :
          /\ CanEdit(m, F[i])
          /\ \E v \in Vals(F[i], c[F[i]]) :
               /\ Handle(m, [c EXCEPT ![F[i]] = v])
               /\ edits' = Append(edits, [msg |-> m, field |-> F[i],
                                          val |-> ToString(v)])

Deliver2 ==
    /\ pc <= Len(Flights) /\ ~Dead /\ Budget >= 2
    /\ LET m == Flights[pc]  c == Content(m)  F == Fields(m) IN
       \E i \in 1..Len(F), j \in 1..Len(F) :
          /\ i < j /\ CanEdit(m, F[i]) /\ CanEdit(m, F[j])
          /\ \E v \in Vals(F[i], c[F[i]]), w \in Vals(F[j], c[F[j]]) :
               /\ Handle(m, [c EXCEPT ![F[i]] = v, ![F[j]] = w])
               /\ edits' = edits \o
                    <<[msg |-> m, field |-> F[i], val |-> ToString(v)],
                      [msg |-> m, field |-> F[j], val |-> ToString(w)]>>

(* a failed side disconnects: the peer's exchange ends as well *)
Abort ==
    /\ pc <= Len(Flights) /\ Dead
    /\ side' = [x \in Side |-> Fail(side[x])]
    /\ pc' = End
    /\ UNCHANGED <<cfg, trustAll, edits>>

(* six keys from K, H, session id (= first H) and the negotiated names *)
Keys(x) == [k |-> side[x].k, h |-> side[x].h,
            algs |-> [side[x].ch EXCEPT !.hostkey = "na", !.kex = "na"]]

(* the first encrypted packets (SERVICE_REQUEST / SERVICE_ACCEPT) only      *)
(* pass if both ends derived the same keys and the same kex method ran     *)
Confirm ==
    /\ pc = End - 1
    /\ LET ok == /\ \A x \in Side : side[x].st = "nk"
                 /\ Keys("c") = Keys("s")
                 /\ side["c"].ch.kex = side["s"].ch.kex
       IN side' = [x \in Side |-> [side[x] EXCEPT !.st = IF ok THEN "done"
                                                         ELSE "fail"]]
    /\ pc' = End
    /\ UNCHANGED <<cfg, trustAll, edits>>

Next == Deliver0 \/ Deliver1 \/ Deliver2 \/ Abort \/ Confirm
Spec == Init /\ [][Next]_vars

-----------------------------------------------------------------------------
Done(x) == side[x].st = "done"

(* what the configuration alone says should be negotiated *)
Expected ==
    LET fc(cat) == FirstCommon(cfg["c"][cat], cfg["s"][cat])
        e == fc("enc")
    IN [kex |-> fc("kex"), hostkey |-> fc("hostkey"), enc_cs |-> e,
        enc_sc |-> e, mac_cs |-> IF e \in AEAD THEN e ELSE fc("mac"),
        mac_sc |-> IF e \in AEAD THEN e ELSE fc("mac"),
        cmp_cs |-> fc("cmp"), cmp_sc |-> fc("cmp")]
AllCommon == ~NegFailed(Expected)

AgreeOrFail ==
    (Done("c") /\ Done("s")) =>
        /\ side["c"].h = side["s"].h /\ side["c"].h # NoH
        /\ Keys("c") = Keys("s")
BothOrNeither == pc = End => (Done("c") <=> Done("s"))
NoDowngrade == Done("c") => side["c"].ch = Expected
FirstClientPref ==
    \A x \in Side : side[x].ch # NoCh =>
        \A i \in 1..Len(ListFields) :
            LET f == ListFields[i]
                cl == CL(x, side[x].kiown, side[x].kipeer, f)
                sl == SL(x, side[x].kiown, side[x].kipeer, f)
                a == side[x].ch[f]
            IN  \/ a = FirstCommon(cl, sl)
                \/ f = "hostkey" /\ x = "c"
                \/ f \in {"mac_cs", "mac_sc"} /\ a \in AEAD
(* whatever an entry point reports as the server's host key, or as       *)
(* success, is reported only after the exchange hash and the host key      *)
(* signature verified                                                      *)
ReportOnlyAfterVerify == side["c"].rep => side["c"].ver
EditDetected ==
    (\E i \in 1..Len(edits) : ~Tolerated(edits[i])) =>
        ~Done("c") /\ ~Done("s")
(* without a binding edit the exchange ends exactly as the lists say *)
Completion ==
    (pc = End /\ \A i \in 1..Len(edits) : Tolerated(edits[i])) =>
        (Done("c") <=> AllCommon)

(* case table for the replay into the implementation *)
Emitted ==
    (Emit /\ pc = End) =>
        PrintT(<<"case", cfg["c"], cfg["s"], trustAll, edits,
                 Done("c"), Done("s"),
                 IF Done("c") THEN side["c"].ch ELSE NoCh>>)

(* reachability witnesses: must be violated *)
NeverDone == ~Done("c")
NeverFailAfterEdit == ~(pc = End /\ Len(edits) > 0 /\ ~Done("c"))
=============================================================================
