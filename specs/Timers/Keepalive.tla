------------------------------ MODULE Keepalive ------------------------------
(***************************************************************************)
(* Dead-peer detection (connection.py: _set/_reset/_cancel_keepalive_timer,*)
(* _keepalive_timer_callback, _make_keepalive_request, _recv_data,         *)
(* keepalive@openssh.com global request and its reply).                    *)
(*                                                                         *)
(* Discrete time.  One endpoint ("conn") has keepalive_interval = I ticks  *)
(* and keepalive_count_max = Max.  The peer is either alive (answers each  *)
(* request, may send data of its own) or, from some moment on, silent      *)
(* (nothing it has not already put on the wire arrives any more).          *)
(* Messages in flight are delivered within D ticks (D < I).                *)
(*   Fire      the timer expires: count + 1; above Max the connection is   *)
(*             declared lost, otherwise the timer is re-armed and a        *)
(*             keepalive request is sent                                   *)
(*   ConnRecv  anything arriving re-arms the timer; a keepalive reply      *)
(*             also resets the count                                       *)
(***************************************************************************)
EXTENDS Naturals, Sequences, TLC

CONSTANTS I, Max, D,      \* interval, count max, delivery bound (ticks)
          MaxTime,        \* horizon
          MaxData,        \* unsolicited data messages the peer may send
          ResetOnReplyOnly \* TRUE (as coded): only a keepalive reply resets the count;
                           \* FALSE: sensitivity variant, the count is never reset

NoTimer == 1000000

VARIABLES now, timerAt, count, toPeer, toConn, silentAt, lost, lostAt, ndata,
          lastIn,   \* time the connection last received anything
          lastRep,  \* time it last received a keepalive reply (or was armed)
          script, lbl
vars == <<now, timerAt, count, toPeer, toConn, silentAt, lost, lostAt, ndata, lastIn, lastRep,
          script, lbl>>
view == <<now, timerAt, count, toPeer, toConn, silentAt, lost, lostAt, ndata, lastIn, lastRep>>

Silent == silentAt # NoTimer

Init ==
    /\ now = 0 /\ timerAt = I /\ count = 0          \* armed when authentication completes
    /\ toPeer = <<>> /\ toConn = <<>>               \* messages: [k |-> kind, at |-> time sent]
    /\ silentAt = NoTimer /\ lost = FALSE /\ lostAt = NoTimer /\ ndata = 0 /\ lastIn = 0 /\ lastRep = 0
    /\ script = <<>> /\ lbl = <<"init">>

Step(l) == lbl' = l /\ script' = Append(script, l)

\* time passes, unless a message has been in flight for D ticks; a timer that becomes due
\* fires at once (before anything else that happens at that instant)
Overdue(q) == q # <<>> /\ now - Head(q).at >= D
Tick ==
    /\ ~lost /\ now < MaxTime
    /\ ~Overdue(toPeer)
    /\ ~(Overdue(toConn) /\ ~Silent)
    /\ now' = now + 1
    /\ IF timerAt = now + 1
       THEN \* _keepalive_timer_callback
            /\ count' = count + 1
            /\ IF count + 1 > Max
               THEN /\ lost' = TRUE /\ lostAt' = now + 1 /\ timerAt' = NoTimer
                    /\ UNCHANGED toPeer
               ELSE /\ timerAt' = now + 1 + I
                    /\ toPeer' = Append(toPeer, [k |-> "req", at |-> now + 1])
                    /\ UNCHANGED <<lost, lostAt>>
            /\ Step(<<"tick", "fire">>)
       ELSE /\ Step(<<"tick", "quiet">>)
            /\ UNCHANGED <<timerAt, count, toPeer, lost, lostAt>>
    /\ UNCHANGED <<toConn, silentAt, ndata, lastIn, lastRep>>

\* the peer processes the next request
PeerRecv ==
    /\ ~lost /\ toPeer # <<>>
    /\ toPeer' = Tail(toPeer)
    /\ toConn' = IF Silent THEN toConn ELSE Append(toConn, [k |-> "reply", at |-> now])
    /\ Step(<<"peerrecv", ~Silent>>)
    /\ UNCHANGED <<now, timerAt, count, silentAt, lost, lostAt, ndata, lastIn, lastRep>>

PeerData ==
    /\ ~lost /\ ~Silent /\ ndata < MaxData
    /\ ndata' = ndata + 1
    /\ toConn' = Append(toConn, [k |-> "data", at |-> now])
    /\ Step(<<"peerdata">>)
    /\ UNCHANGED <<now, timerAt, count, toPeer, silentAt, lost, lostAt, lastIn, lastRep>>

\* the peer (or the path to it) dies: nothing more arrives, not even what is in flight
GoSilent ==
    /\ ~lost /\ ~Silent
    /\ silentAt' = now
    /\ toConn' = <<>>
    /\ Step(<<"silent">>)
    /\ UNCHANGED <<now, timerAt, count, toPeer, lost, lostAt, ndata, lastIn, lastRep>>

ConnRecv ==
    /\ ~lost /\ ~Silent /\ toConn # <<>>
    /\ LET m == Head(toConn) IN
       /\ toConn' = Tail(toConn)
       /\ timerAt' = now + I
       /\ count' = IF m.k = "reply" /\ ResetOnReplyOnly THEN 0 ELSE count
       /\ Step(<<"connrecv", m.k>>)
    /\ lastIn' = now
    /\ lastRep' = IF Head(toConn).k = "reply" THEN now ELSE lastRep
    /\ UNCHANGED <<now, toPeer, silentAt, lost, lostAt, ndata>>

Next == Tick \/ PeerRecv \/ PeerData \/ GoSilent \/ ConnRecv
Spec == Init /\ [][Next]_vars

-----------------------------------------------------------------------------
\* a peer that went silent is detected within (Max + 1) intervals of the last sign of life
DeadPeerDetected == (Silent /\ ~lost) => now <= lastIn + (Max + 1) * I
DetectedNotLate == lost => lostAt <= lastIn + (Max + 1) * I
\* and never before Max + 1 intervals have passed without a keepalive reply (data alone re-arms
\* the timer but, as coded and documented, does not reset the count)
NotEarly == lost => lostAt >= lastRep + (Max + 1) * I
\* NOT a property of the design as coded (TLC finds: data at t, reply lost, given up one interval
\* later): giving up is never earlier than Max + 1 intervals after the last sign of life
NotEarlyAfterAnyInput == lost => lostAt >= lastIn + (Max + 1) * I
\* a live peer that answers within D < I is never declared dead
NoFalseAlarm == lost => Silent
CountBounded == count <= Max + 1

\* witnesses
NeverLost == ~lost
NeverReset == ~(lbl = <<"connrecv", "reply">> /\ count = 0 /\ now > I)

Quiescent == lost \/ now = MaxTime
EmitScript == Quiescent =>
    PrintT(ToString(<<"SCRIPT", script, [now |-> now, count |-> count, lost |-> lost,
                                         lostAt |-> lostAt, timerAt |-> timerAt]>>))
=============================================================================
