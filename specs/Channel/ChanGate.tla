------------------------------ MODULE ChanGate ------------------------------
(***************************************************************************)
(* What a ROGUE peer's channel-level messages do in every state of a       *)
(* channel of asyncssh, as a decision table                                *)
(*     Outcome(row)   row = (role, chan, rs, ss, rd, buf, req, keep, msg)  *)
(* transcribed from connection.py _recv_packet (channel lookup),           *)
(* _process_channel_open_confirmation/_failure and channel.py              *)
(* _process_window_adjust/_data/_extended_data/_eof/_close/_request/       *)
(* _response, _accept_data, _deliver_data, _flush_recv_buf,                *)
(* _flush_send_buf, _close_send, _report_response, close,                  *)
(* SSHClientChannel.create.                                                *)
(*                                                                         *)
(*   role   which endpoint is under test: "server" (its channel was opened *)
(*          by the peer) or "client" (it opened the channel itself with    *)
(*          create_session(): while reading is "starting" its exec request *)
(*          is outstanding)                                                *)
(*   chan   which channel number the message names:                        *)
(*          "known"    an open channel in the state (rs, ss, rd, buf, req) *)
(*          "never"    a number that was never allocated                   *)
(*          "cleaned"  a channel that was closed by both sides and removed *)
(*          "opening"  client: OPEN sent, no answer yet; server: OPEN      *)
(*                     received, the application has not decided yet       *)
(*          "closing"  the peer's CLOSE was processed in the SAME read     *)
(*                     (receive state closed, clean-up not run yet)        *)
(*          "reused"   the number of a cleaned channel that a NEW open     *)
(*                     channel got                                         *)
(*   rs     receive state  open | eof_pending (EOF parked behind data that *)
(*          is buffered while reading is paused / not started) | eof |     *)
(*          close_pending (CLOSE parked behind buffered data)              *)
(*   ss     send state  open | eof_pending (EOF queued behind data waiting *)
(*          for window) | eof | close_pending | closed                     *)
(*   rd     starting (session not started) | reading | paused              *)
(*   buf    one chunk of 1 byte is parked in the receive buffer            *)
(*   req    a channel request of the endpoint awaits its reply             *)
(*   keep   what the session answers to eof_received()                     *)
(*                                                                         *)
(* Concrete numbers (the driver uses the same): receive window W = 16,     *)
(* maximum packet size P = 8, the peer has granted a send window of 0, the *)
(* unsent data are two 1-byte writes.                                      *)
(*                                                                         *)
(* Outcome classes: "accept" (with its effect: callbacks cb, packets out,  *)
(* state after), "protocol_error" (the connection ends with a              *)
(* ProtocolError-class disconnect), "ignored" (dropped on purpose; while   *)
(* the own CLOSE waits for window the dropped bytes are credited back),    *)
(* "unimpl" (answered with UNIMPLEMENTED, nothing else).                   *)
(***************************************************************************)
EXTENDS Integers, Sequences, FiniteSets, TLC

CONSTANTS
    DataAfterEof,       \* FALSE as coded.  TRUE: DATA still accepted after the peer's EOF
    AdjustAfterEof,     \* TRUE as coded.   FALSE: WINDOW_ADJUST refused once the peer sent EOF
    UnknownChan,        \* "error" as coded. "ignore": messages for unknown channels are dropped
    ReplyUnsolicited,   \* FALSE as coded.  TRUE: an unsolicited SUCCESS / FAILURE is answered
    DropAfterClose,     \* TRUE as coded.   FALSE: DATA after the local close is a protocol error
    ReplyWhileClosing,  \* TRUE as coded (repaired, F28). FALSE: no reply while a close waits for window
    CheckWindow,        \* TRUE as coded.   FALSE: DATA beyond the window is accepted
    CreditWhileClosing, \* TRUE as coded (repaired, F32): data dropped while the own CLOSE still waits
                        \* for window is credited back with a WINDOW_ADJUST.  FALSE: dropped silently
    SecondStart         \* "as_coded": a second shell/exec/subsystem request is handed to the
                        \* application again (observation F10); "refused": RFC 4254 6.5

W == 16
P == 8
Roles == {"server", "client"}
ChanKinds == {"known", "never", "cleaned", "opening", "closing", "reused"}
RecvStates == {"open", "eof_pending", "eof", "close_pending"}
SendStates == {"open", "eof_pending", "eof", "close_pending", "closed"}
Readings == {"starting", "reading", "paused"}

DataMsgs == {"DATA_ZERO", "DATA_SMALL", "DATA_MAXPKT", "DATA_BIGPKT", "DATA_EXACT", "DATA_OVER",
             "DATA_TRAIL", "EXT_STDERR", "EXT_BADTYPE", "EXT_OVER"}
ReqMsgs == {"REQ_KNOWN_R", "REQ_KNOWN_N", "REQ_UNKNOWN_R", "REQ_UNKNOWN_N", "REQ_START", "REQ_BADNAME"}
Msgs == DataMsgs \cup ReqMsgs \cup
        {"EOF", "EOF_TRAIL", "CLOSE", "ADJ_ONE", "ADJ_ALL", "ADJ_OVERFLOW", "SUCCESS", "FAILURE",
         "OPEN_CONF", "OPEN_FAIL", "UNKNOWN_TYPE", "TRUNC"}

Min(a, b) == IF a < b THEN a ELSE b

-----------------------------------------------------------------------------
(* rows *)

\* state classes that a channel can be in (see the module comment of the driver for how
\* each one is reached through the public API)
Reachable(role, rs, ss, rd, buf, req) ==
    LET locallyClosed == ss \in {"close_pending", "closed"}
        shape ==
          \/ \* not closed by the application
             /\ ~locallyClosed
             /\ \/ rs = "open" /\ (buf => rd # "reading")
                \/ rs = "eof_pending" /\ (rd = "starting" \/ (rd = "paused" /\ buf))
                \/ rs = "eof" /\ rd \in {"reading", "paused"} /\ ~buf
          \/ \* closed by the application: buffer discarded, reading forced on
             /\ locallyClosed /\ rd = "reading" /\ ~buf /\ rs \in {"open", "eof_pending", "eof"}
          \/ \* the peer's CLOSE parked behind buffered data (own CLOSE sent in reply)
             /\ rs = "close_pending" /\ ss = "closed" /\ rd \in {"starting", "paused"} /\ buf
    IN /\ shape
       /\ role = "server" => ~req
       /\ role = "client" =>
            \* create_session(): "starting" lasts exactly as long as the exec request is
            \* outstanding, and the application has no handle on the channel before that
            /\ req <=> rd = "starting"
            /\ rd = "starting" => ss = "open" /\ rs \in {"open", "eof_pending"}

MsgOf(role) == IF role = "server" THEN Msgs ELSE Msgs \ {"REQ_START"}
\* the session's answer to eof_received() only matters where an EOF can be delivered
KeepOf(msg) == IF msg \in {"EOF", "REQ_START", "SUCCESS"} THEN BOOLEAN ELSE {TRUE}

Row(role, chan, rs, ss, rd, buf, req, keep, msg) ==
    [role |-> role, chan |-> chan, rs |-> rs, ss |-> ss, rd |-> rd, buf |-> buf, req |-> req,
     keep |-> keep, msg |-> msg]

Rows ==
    {Row(role, "known", rs, ss, rd, buf, req, keep, msg) :
        role \in Roles, rs \in RecvStates, ss \in SendStates, rd \in Readings,
        buf \in BOOLEAN, req \in BOOLEAN, keep \in BOOLEAN, msg \in Msgs}
    \cup {Row(role, chan, "open", "open", "reading", FALSE, FALSE, TRUE, msg) :
        role \in Roles, chan \in ChanKinds \ {"known"}, msg \in Msgs}

ValidRow(r) ==
    /\ r.msg \in MsgOf(r.role)
    /\ r.keep \in KeepOf(r.msg)
    /\ r.chan = "known" => Reachable(r.role, r.rs, r.ss, r.rd, r.buf, r.req)

-----------------------------------------------------------------------------
(* the channel as a record, and the code's helper methods as functions on it *)

Pre(r) == [rs |-> r.rs, ss |-> r.ss, rd |-> r.rd,
           buf |-> IF r.buf THEN <<<<"data_received", 1>>>> ELSE <<>>,  \* parked chunks
           nsend |-> IF r.ss \in {"eof_pending", "close_pending"} THEN 2 ELSE 0,   \* unsent 1-byte writes
           swin |-> 0, rwin |-> W, req |-> r.req,
           cb |-> <<>>,         \* session callbacks <<name, n>>
           out |-> <<>>,        \* packets emitted <<name, n>>
           gone |-> FALSE,      \* clean-up ran: session told connection_lost, number released
           create |-> IF r.req THEN "pending" ELSE "none",   \* the create_session() call (client)
           wover |-> FALSE,     \* the send window went beyond 2^32 - 1
           cls |-> "accept", why |-> ""]

RECURSIVE SumBuf(_)
SumBuf(b) == IF b = <<>> THEN 0 ELSE Head(b)[2] + SumBuf(Tail(b))

Call(st, name, n) == [st EXCEPT !.cb = Append(@, <<name, n>>)]
\* SSHChannel.send_packet: silently nothing once the own CLOSE has gone out
EmitCh(st, name, n) == IF st.ss = "closed" THEN st ELSE [st EXCEPT !.out = Append(@, <<name, n>>)]

CloseSend(st) ==
    LET s1 == [st EXCEPT !.nsend = 0]
    IN IF st.ss = "closed" THEN s1 ELSE [EmitCh(s1, "CLOSE", 0) EXCEPT !.ss = "closed"]

RECURSIVE EmitData(_, _)
EmitData(st, k) == IF k = 0 THEN st ELSE EmitData(EmitCh(st, "DATA", 1), k - 1)

FlushSend(st) ==
    LET k == Min(st.nsend, st.swin)
        s1 == [EmitData(st, k) EXCEPT !.nsend = @ - k, !.swin = @ - k]
    IN IF s1.nsend > 0 THEN s1
       ELSE IF s1.ss = "eof_pending" THEN [EmitCh(s1, "EOF", 0) EXCEPT !.ss = "eof"]
       ELSE IF s1.ss = "close_pending" THEN CloseSend(s1)
       ELSE s1

WriteEof(st) == IF st.ss = "open" THEN FlushSend([st EXCEPT !.ss = "eof_pending"]) ELSE st

\* _deliver_data
DeliverOne(st, name, n) ==
    LET r1 == st.rwin - n
        s1 == IF 2 * r1 < W THEN [EmitCh(st, "ADJ", W - r1) EXCEPT !.rwin = W]
              ELSE [st EXCEPT !.rwin = r1]
    IN Call(s1, name, n)

RECURSIVE DeliverAll(_)
DeliverAll(st) ==
    IF st.buf = <<>> THEN st
    ELSE DeliverAll(DeliverOne([st EXCEPT !.buf = Tail(@)], Head(st.buf)[1], Head(st.buf)[2]))

\* _flush_recv_buf
FlushRecv(st, keep) ==
    LET s1 == IF st.rd = "reading" THEN DeliverAll(st) ELSE st
        s2 == IF s1.buf = <<>> /\ s1.rd # "starting" /\ s1.rs = "eof_pending"
              THEN LET e == Call([s1 EXCEPT !.rs = "eof"], "eof_received", 0)
                   IN IF ~keep THEN WriteEof(e) ELSE e
              ELSE s1
    IN IF s2.buf = <<>> /\ s2.rs = "close_pending"
       THEN [s2 EXCEPT !.rs = "closed", !.gone = TRUE] ELSE s2

\* SSHChannel.close() called by the library itself (create() after a failed request)
LocalClose(st) ==
    LET s1 == IF st.ss \in {"close_pending", "closed"} THEN st
              ELSE FlushSend([st EXCEPT !.ss = "close_pending"])
    IN IF s1.rs = "closed" THEN s1
       ELSE LET s2 == [s1 EXCEPT !.buf = <<>>, !.rd = "reading"]
            IN IF s2.rs = "close_pending" THEN [s2 EXCEPT !.rs = "closed", !.gone = TRUE] ELSE s2

PE(st, why) == [st EXCEPT !.cls = "protocol_error", !.why = why]
Ign(st, why) == [st EXCEPT !.cls = "ignored", !.why = why]
Acc(st, why) == [st EXCEPT !.cls = "accept", !.why = why]

-----------------------------------------------------------------------------
(* the handlers *)

ProcData(st, name, n, okext, trail) ==
    IF st.rs # "open" /\ ~(DataAfterEof /\ st.rs \in {"eof_pending", "eof"}) THEN PE(st, "data_not_open")
    ELSE IF trail THEN PE(st, "decode")
    ELSE IF ~okext THEN PE(st, "ext_type")
    ELSE IF CheckWindow /\ n > st.rwin - SumBuf(st.buf) THEN PE(st, "window")
    ELSE IF n = 0 THEN Ign(st, "empty")
    ELSE IF st.ss \in {"close_pending", "closed"}
         THEN IF ~DropAfterClose THEN PE(st, "data_after_close")
              ELSE IF st.ss = "close_pending"
              THEN \* the own CLOSE is still waiting for window: the bytes are given back to the
                   \* peer (no window consumed), or two channels closing at the same time with
                   \* exhausted windows wait for each other for ever
                   Ign(IF CreditWhileClosing THEN EmitCh(st, "ADJ", n) ELSE st, "dropped_credited")
              ELSE Ign(st, "dropped_closed")
    ELSE IF st.rd # "reading" THEN Acc([st EXCEPT !.buf = Append(@, <<name, n>>)], "buffered")
    ELSE Acc(DeliverOne(st, name, n), "delivered")

ProcEof(st, trail, keep) ==
    IF st.rs # "open" THEN PE(st, "eof_not_open")
    ELSE IF trail THEN PE(st, "decode")
    ELSE LET s1 == FlushRecv([st EXCEPT !.rs = "eof_pending"], keep)
         IN Acc(s1, IF s1.rs = "eof" THEN "eof_delivered" ELSE "eof_parked")

ProcClose(st) ==
    IF st.rs \notin {"open", "eof_pending", "eof"} THEN PE(st, "close_not_open")
    ELSE LET s1 == CloseSend(st)
             \* requests still outstanding are failed: no reply can follow a CLOSE
             s2 == FlushRecv([s1 EXCEPT !.rs = "close_pending", !.req = FALSE], TRUE)
             \* ... which makes create() give up: close(), ChannelOpenError
             s3 == IF st.req THEN [LocalClose(s2) EXCEPT !.create = "err"] ELSE s2
         IN Acc(s3, IF s3.gone THEN "close_done" ELSE "close_parked")

ProcAdj(st, kind) ==
    IF st.rs \notin (IF AdjustAfterEof THEN {"open", "eof_pending", "eof"} ELSE {"open"})
    THEN PE(st, "adj_not_open")
    ELSE LET n == IF kind = "one" THEN 1 ELSE 8      \* "overflow": 2^32 - 1, anything >= 2 flushes all
             s1 == FlushSend([st EXCEPT !.swin = @ + n, !.wover = (kind = "overflow")])
         IN Acc(s1, IF st.nsend > 0 THEN "adj_flush" ELSE "adj_idle")

ProcReq(st, kind, want, keep) ==
    IF st.rs \notin {"open", "eof_pending", "eof"} THEN PE(st, "req_not_open")
    ELSE IF kind = "badname" THEN PE(st, "req_name")
    ELSE LET refused == kind = "start" /\ SecondStart = "refused" /\ st.rd # "starting"
             result == kind = "known" \/ (kind = "start" /\ ~refused)
             s1 == IF kind = "known" THEN Call(st, "request_cb", 0)
                   ELSE IF kind = "start" /\ ~refused THEN Call(st, "exec_requested", 0)
                   ELSE st
             canreply == want /\ s1.ss # "closed" /\ (ReplyWhileClosing \/ s1.ss # "close_pending")
             s2 == IF canreply THEN EmitCh(s1, IF result THEN "SUCCESS" ELSE "FAILURE", 0) ELSE s1
             s3 == IF kind = "start" /\ result
                   THEN LET a == Call(s2, "session_started", 0)     \* then resume_reading()
                        IN IF a.rd # "reading" THEN FlushRecv([a EXCEPT !.rd = "reading"], keep) ELSE a
                   ELSE s2
         IN Acc(s3, IF kind = "start" THEN (IF refused THEN "start_refused"
                                            ELSE IF st.rd = "starting" THEN "start" ELSE "start_again")
                    ELSE IF kind = "known" THEN "req_known" ELSE "req_unknown")

ProcResp(st, ok, keep) ==
    IF ~st.req
    THEN IF ReplyUnsolicited THEN Acc(EmitCh(st, "FAILURE", 0), "unsolicited_answered")
         ELSE PE(st, "unsolicited")
    ELSE \* the exec request of create_session()
         IF ok
         THEN LET a == Call([st EXCEPT !.req = FALSE, !.create = "ok"], "session_started", 0)
              IN Acc(IF a.rd = "starting" THEN FlushRecv([a EXCEPT !.rd = "reading"], keep) ELSE a,
                     "reply_ok")
         ELSE Acc([LocalClose([st EXCEPT !.req = FALSE]) EXCEPT !.create = "err"], "reply_fail")

\* clean-up runs from the loop right after: the session hears connection_lost
Final(o) == IF o.gone /\ o.cls = "accept" THEN Call(o, "connection_lost", 0) ELSE o

OnChannel(r, st) ==
    LET m == r.msg
        avail == st.rwin - SumBuf(st.buf)
        stderr == r.role = "client"     \* only a client channel reads extended data (type 1)
    IN Final(
       CASE m = "DATA_ZERO" -> ProcData(st, "data_received", 0, TRUE, FALSE)
         [] m = "DATA_SMALL" -> ProcData(st, "data_received", 1, TRUE, FALSE)
         [] m = "DATA_MAXPKT" -> ProcData(st, "data_received", P, TRUE, FALSE)
         [] m = "DATA_BIGPKT" -> ProcData(st, "data_received", P + 1, TRUE, FALSE)
         [] m = "DATA_EXACT" -> ProcData(st, "data_received", avail, TRUE, FALSE)
         [] m = "DATA_OVER" -> ProcData(st, "data_received", avail + 1, TRUE, FALSE)
         [] m = "DATA_TRAIL" -> ProcData(st, "data_received", 1, TRUE, TRUE)
         [] m = "EXT_STDERR" -> ProcData(st, "ext_received", 1, stderr, FALSE)
         [] m = "EXT_BADTYPE" -> ProcData(st, "ext_received", 1, FALSE, FALSE)
         [] m = "EXT_OVER" -> ProcData(st, "ext_received", avail + 1, stderr, FALSE)
         [] m = "EOF" -> ProcEof(st, FALSE, r.keep)
         [] m = "EOF_TRAIL" -> ProcEof(st, TRUE, r.keep)
         [] m = "CLOSE" -> ProcClose(st)
         [] m = "ADJ_ONE" -> ProcAdj(st, "one")
         [] m = "ADJ_ALL" -> ProcAdj(st, "all")
         [] m = "ADJ_OVERFLOW" -> ProcAdj(st, "overflow")
         [] m = "REQ_KNOWN_R" -> ProcReq(st, "known", TRUE, r.keep)
         [] m = "REQ_KNOWN_N" -> ProcReq(st, "known", FALSE, r.keep)
         [] m = "REQ_UNKNOWN_R" -> ProcReq(st, "unknown", TRUE, r.keep)
         [] m = "REQ_UNKNOWN_N" -> ProcReq(st, "unknown", FALSE, r.keep)
         [] m = "REQ_START" -> ProcReq(st, "start", TRUE, r.keep)
         [] m = "REQ_BADNAME" -> ProcReq(st, "badname", TRUE, r.keep)
         [] m = "SUCCESS" -> ProcResp(st, TRUE, r.keep)
         [] m = "FAILURE" -> ProcResp(st, FALSE, r.keep)
         [] m \in {"OPEN_CONF", "OPEN_FAIL"} -> PE(st, "not_opening")
         \* answered by the connection, whatever the channel's state
         [] m = "UNKNOWN_TYPE" -> [st EXCEPT !.cls = "unimpl", !.why = "unknown_type",
                                             !.out = <<<<"UNIMPLEMENTED", 0>>>>]
         [] m = "TRUNC" -> PE(st, "truncated"))

\* a registered channel that is not open in either direction and has no waiter: whatever
\* names it is a protocol error (or an unknown message type)
OnDeadChannel(r, st, why) ==
    IF r.msg = "UNKNOWN_TYPE"
    THEN [st EXCEPT !.cls = "unimpl", !.why = "unknown_type", !.out = <<<<"UNIMPLEMENTED", 0>>>>]
    ELSE PE(st, why)

Outcome(r) ==
    LET st == Pre(r)
    IN CASE r.chan \in {"known", "reused"} -> OnChannel(r, st)
         [] r.chan \in {"never", "cleaned"} ->
              IF r.msg = "TRUNC" THEN PE(st, "truncated")
              ELSE IF UnknownChan = "error" THEN PE(st, "no_such_channel")
              ELSE Ign(st, "no_such_channel")
         [] r.chan = "closing" -> OnDeadChannel(r, st, "closing")
         [] r.chan = "opening" ->
              IF r.role = "client" /\ r.msg = "OPEN_CONF"
              THEN \* create() goes on: session made, exec request sent
                   Acc([Call(st, "connection_made", 0) EXCEPT !.rd = "starting", !.req = TRUE,
                            !.create = "pending", !.out = <<<<"REQUEST", 0>>>>], "confirmed")
              ELSE IF r.role = "client" /\ r.msg = "OPEN_FAIL"
              THEN Acc([st EXCEPT !.gone = TRUE, !.create = "err"], "open_failed")
              ELSE IF r.msg = "TRUNC" THEN PE(st, "truncated")
              ELSE OnDeadChannel(r, st, "opening")

\* the channel after the application has then called resume_reading()
Resumed(r, o) ==
    LET o0 == [o EXCEPT !.cb = <<>>, !.out = <<>>]
    IN IF o.rd = "reading" THEN o0 ELSE FlushRecv([o0 EXCEPT !.rd = "reading"], r.keep)
Settled(r, o) == o.cls # "protocol_error" /\ ~o.gone /\ r.chan \in {"known", "reused"}

\* what the session hears at that point
Later(r, o) ==
    IF ~Settled(r, o) \/ o.rd = "reading" THEN <<>>
    ELSE LET f == Resumed(r, o)
         IN IF f.gone THEN Append(f.cb, <<"connection_lost", 0>>) ELSE f.cb

\* ... and what happens when the peer finally closes the channel
NoEpilogue == [cls |-> "none", cb |-> <<>>, out |-> <<>>, create |-> "none"]
Epilogue(r, o) ==
    IF ~Settled(r, o) \/ Resumed(r, o).gone THEN NoEpilogue
    ELSE LET c == Final(ProcClose([Resumed(r, o) EXCEPT !.cb = <<>>, !.out = <<>>]))
         IN [cls |-> c.cls, cb |-> c.cb, out |-> c.out, create |-> c.create]

-----------------------------------------------------------------------------
VARIABLE row
vars == <<row>>
Init == row \in {r \in Rows : ValidRow(r)}
Next == UNCHANGED vars
Spec == Init /\ [][Next]_vars

O == Outcome(row)
L == Later(row, O)
E == Epilogue(row, O)

-----------------------------------------------------------------------------
(* RFC 4254 section 5: what an honest peer may still send, given what it has sent *)

PeerSent(r) == IF r.rs = "open" THEN "none"
               ELSE IF r.rs \in {"eof_pending", "eof"} THEN "eof" ELSE "close"

Honest(r) ==
    LET m == r.msg
        ps == PeerSent(r)
    IN \/ /\ r.chan \in {"known", "reused"}
          /\ \/ m \in {"DATA_ZERO", "DATA_SMALL", "DATA_MAXPKT", "EOF"} /\ ps = "none"
             \/ m = "EXT_STDERR" /\ ps = "none" /\ r.role = "client"
             \/ m \in {"CLOSE", "ADJ_ONE", "ADJ_ALL", "REQ_KNOWN_R", "REQ_KNOWN_N",
                       "REQ_UNKNOWN_R", "REQ_UNKNOWN_N"} /\ ps \in {"none", "eof"}
             \/ m = "REQ_START" /\ ps \in {"none", "eof"} /\ r.rd = "starting"
             \/ m \in {"SUCCESS", "FAILURE"} /\ r.req /\ ps \in {"none", "eof"}
       \/ r.chan = "opening" /\ r.role = "client" /\ m \in {"OPEN_CONF", "OPEN_FAIL"}

Count(q, name) == Cardinality({i \in 1..Len(q) : q[i][1] = name})
DataCbs(q) == Count(q, "data_received") + Count(q, "ext_received")

\* a message an honest peer could legally send in that state is never a protocol error;
\* it is dropped only where the application has closed the channel (or it carries nothing)
HonestAccepted ==
    Honest(row) => \/ O.cls = "accept"
                   \/ O.cls = "ignored" /\ (row.ss \in {"close_pending", "closed"} \/ row.msg = "DATA_ZERO")

\* the session is handed only what the peer sent BEFORE its EOF / CLOSE, and one EOF at most
NothingPastEof ==
    row.chan = "known" =>
      LET all == O.cb \o L
          ps == PeerSent(row)
      IN /\ DataCbs(all) <= (IF row.buf THEN 1 ELSE 0)
                            + (IF ps = "none" /\ row.msg \in DataMsgs THEN 1 ELSE 0)
         /\ Count(all, "eof_received") <=
               (IF row.rs = "eof_pending" \/ (ps = "none" /\ row.msg \in {"EOF", "EOF_TRAIL"}) THEN 1 ELSE 0)
         /\ ps = "close" => O.cls \in {"protocol_error", "unimpl"}

\* no reply is produced for a SUCCESS / FAILURE, and an unsolicited one is an error
NoReplyUnsolicited ==
    row.msg \in {"SUCCESS", "FAILURE"} =>
        /\ Count(O.out, "SUCCESS") + Count(O.out, "FAILURE") = 0
        /\ (~row.req \/ row.chan \notin {"known"}) => O.cls = "protocol_error"

\* a message for a channel that does not exist ends the connection and reaches no session
UnknownChannelIsError ==
    row.chan \in {"never", "cleaned"} => O.cls = "protocol_error" /\ O.cb = <<>> /\ O.out = <<>>

\* ... and so does one for a channel that is not open (any more / yet)
DeadChannelIsError ==
    (row.chan = "closing" \/ (row.chan = "opening" /\ ~Honest(row))) =>
        O.cls \in {"protocol_error", "unimpl"} /\ O.cb = <<>>

WindowEnforced == row.msg \in {"DATA_OVER", "EXT_OVER"} => O.cls = "protocol_error"

\* RFC 4254 5.4: exactly one reply iff want_reply (none once the own CLOSE is out)
ReplyIffWanted ==
    (row.msg \in ReqMsgs /\ O.cls = "accept") =>
        Count(O.out, "SUCCESS") + Count(O.out, "FAILURE") =
            (IF row.msg \in {"REQ_KNOWN_R", "REQ_UNKNOWN_R", "REQ_START"} /\ row.ss # "closed" THEN 1 ELSE 0)

\* after close() / abort() the session gets no more data
NoDataAfterLocalClose ==
    (row.chan = "known" /\ row.ss \in {"close_pending", "closed"}) => DataCbs(O.cb \o L) <= (IF row.buf THEN 1 ELSE 0)

\* data dropped while the own CLOSE waits for window is credited back in full
DroppedDataCredited ==
    (row.chan = "known" /\ row.ss = "close_pending" /\ O.cls = "ignored" /\ row.msg # "DATA_ZERO") =>
        /\ Len(O.out) = 1 /\ O.out[1][1] = "ADJ" /\ O.out[1][2] >= 1
        /\ O.rwin = W /\ O.buf = <<>> /\ O.cb = <<>>

\* only the message itself can be refused: a refusal has no other effect
ErrorHasNoEffect == O.cls = "protocol_error" => O.cb = <<>> /\ O.out = <<>>

\* whatever was sent, the peer's CLOSE afterwards ends the channel in order: the session
\* hears connection_lost and nothing else, and over the whole row the endpoint sends
\* exactly one CLOSE of its own (none if its CLOSE had gone out before)
ClosesCleanly ==
    E.cls # "none" =>
        /\ E.cls = "accept" /\ E.cb = <<<<"connection_lost", 0>>>>
        /\ Count(O.out \o E.out, "CLOSE") = (IF row.ss = "closed" THEN 0 ELSE 1)

\* RFC 4254 6.5: only one of shell / exec / subsystem can succeed per channel
StartOnce ==
    (row.msg = "REQ_START" /\ row.chan = "known" /\ row.rd # "starting") => Count(O.cb, "session_started") = 0

\* emits the table (always TRUE)
EmitRow == PrintT(ToString(<<"SCRIPT", row, [o |-> O, later |-> L, epi |-> E, honest |-> Honest(row)]>>))
=============================================================================
