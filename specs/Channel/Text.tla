-------------------------------- MODULE Text --------------------------------
(***************************************************************************)
(* Text channels (channel.py: write() encodes with an incremental encoder, *)
(* _flush_send_buf cuts the encoded bytes into CHANNEL_DATA /              *)
(* CHANNEL_EXTENDED_DATA packets wherever the window or the packet size    *)
(* says, _deliver_data decodes what arrives with an incremental decoder    *)
(* and hands complete characters to the session).                          *)
(*                                                                         *)
(* The sending application writes characters on data types 0 (stdout /     *)
(* stdin) and 1 (stderr); character k is Width[k] bytes long.  The sending *)
(* transport cuts every data type's byte stream into packets of 1..Pkt     *)
(* bytes.  Two kinds of sender:                                            *)
(*   FifoSender = TRUE   one send buffer for all data types, emptied in    *)
(*                       write order (asyncssh's own _flush_send_buf)      *)
(*   FifoSender = FALSE  any SSH peer: each data type's bytes stay in      *)
(*                       order, packets of different types interleave      *)
(*                       freely (an sshd reading a child's stdout and      *)
(*                       stderr pipes cuts characters wherever read()      *)
(*                       returns)                                          *)
(* and two designs of the receiver:                                        *)
(*   PerTypeDecoder = TRUE   pending bytes of an incomplete character are  *)
(*                           kept per data type                            *)
(*   PerTypeDecoder = FALSE  one incremental decoder for the whole channel *)
(***************************************************************************)
EXTENDS Naturals, Sequences, FiniteSets, TLC

CONSTANTS Writes,        \* sequence of [dt |-> 0..1, w |-> sequence of character widths]
          Pkt,           \* largest packet, in bytes
          FifoSender, PerTypeDecoder

DTs == {0, 1}

\* characters are numbered in write order; Chars[k] = [dt, w]
RECURSIVE Flatten(_)
Flatten(ws) == IF ws = <<>> THEN <<>>
               ELSE [i \in 1..Len(Head(ws).w) |-> [dt |-> Head(ws).dt, w |-> Head(ws).w[i]]]
                    \o Flatten(Tail(ws))
Chars == Flatten(Writes)
NChars == Len(Chars)
\* the byte stream in write order: <<char, index within char>>
RECURSIVE BytesFrom(_)
BytesFrom(k) == IF k > NChars THEN <<>>
                ELSE [i \in 1..Chars[k].w |-> <<k, i>>] \o BytesFrom(k + 1)
AllBytes == BytesFrom(1)
SelectDT(q, dt) == SelectSeq(q, LAMBDA b : Chars[b[1]].dt = dt)
Written(dt) == SelectSeq([k \in 1..NChars |-> k], LAMBDA k : Chars[k].dt = dt)

VARIABLES tosend,     \* bytes not yet put into a packet, in write order
          net,        \* packets in flight: [dt, b]
          pend,       \* receiver: bytes of an incomplete character, per decoder
          delivered,  \* per data type: characters handed to the session
          misfiled,   \* a character was delivered under the wrong data type
          err,        \* the decoder rejected its input
          script, lbl
vars == <<tosend, net, pend, delivered, misfiled, err, script, lbl>>
view == <<tosend, net, pend, delivered, misfiled, err>>

Init ==
    /\ tosend = AllBytes
    /\ net = <<>>
    /\ pend = [d \in DTs |-> <<>>]
    /\ delivered = [d \in DTs |-> <<>>]
    /\ misfiled = FALSE
    /\ err = FALSE
    /\ script = <<>>
    /\ lbl = <<"init">>

\* the sender puts the next n bytes of data type dt into one packet
Send(dt, n) ==
    LET mine == SelectDT(tosend, dt) IN
    /\ ~err /\ n \in 1..Pkt /\ n <= Len(mine)
    /\ FifoSender => /\ Chars[tosend[1][1]].dt = dt
                     \* the run of dt bytes at the head is at least n long
                     /\ \A i \in 1..n : Chars[tosend[i][1]].dt = dt
    /\ LET taken == SubSeq(mine, 1, n)
           gone == {taken[i] : i \in 1..n}
       IN /\ tosend' = SelectSeq(tosend, LAMBDA b : b \notin gone)
          /\ net' = Append(net, [dt |-> dt, b |-> taken])
          /\ script' = Append(script, [dt |-> dt, b |-> taken])
    /\ lbl' = <<"send", dt, n>>
    /\ UNCHANGED <<pend, delivered, misfiled, err>>

\* incremental decoding of q: (complete characters, rest, ok)
RECURSIVE Decode(_, _)
Decode(q, acc) ==
    IF q = <<>> THEN [chars |-> acc, rest |-> <<>>, ok |-> TRUE]
    ELSE LET k == q[1][1] w == Chars[k].w IN
         IF q[1][2] # 1 THEN [chars |-> acc, rest |-> q, ok |-> FALSE]   \* continuation byte first
         ELSE IF Len(q) < w
              THEN IF \A i \in 1..Len(q) : q[i] = <<k, i>>
                   THEN [chars |-> acc, rest |-> q, ok |-> TRUE]          \* incomplete so far
                   ELSE [chars |-> acc, rest |-> q, ok |-> FALSE]
              ELSE IF \A i \in 1..w : q[i] = <<k, i>>
                   THEN Decode(SubSeq(q, w + 1, Len(q)), Append(acc, k))
                   ELSE [chars |-> acc, rest |-> q, ok |-> FALSE]

\* the receiver processes the next packet (_deliver_data)
Recv ==
    /\ ~err /\ net # <<>>
    /\ LET p == Head(net)
           slot == IF PerTypeDecoder THEN p.dt ELSE 0
           r == Decode(pend[slot] \o p.b, <<>>)
       IN /\ net' = Tail(net)
          /\ err' = ~r.ok
          /\ pend' = [pend EXCEPT ![slot] = r.rest]
          /\ delivered' = [delivered EXCEPT ![p.dt] = @ \o r.chars]
          /\ misfiled' = (misfiled \/ \E i \in 1..Len(r.chars) : Chars[r.chars[i]].dt # p.dt)
          /\ lbl' = <<"recv", p.dt, Len(p.b)>>
    /\ UNCHANGED <<tosend, script>>

Next == (\E dt \in DTs, n \in 1..Pkt : Send(dt, n)) \/ Recv
Spec == Init /\ [][Next]_vars

-----------------------------------------------------------------------------
IsPrefix(a, b) == Len(a) <= Len(b) /\ \A i \in 1..Len(a) : a[i] = b[i]
\* what a session has seen on a data type is a prefix of what was written on it
DeliveredIsPrefix == \A d \in DTs : IsPrefix(delivered[d], Written(d))
NoDecodeError == ~err
NotMisfiled == ~misfiled
Done == tosend = <<>> /\ net = <<>>
\* once everything has arrived, everything has been delivered
AllDelivered == Done /\ ~err => \A d \in DTs : delivered[d] = Written(d)

\* vacuity witnesses
NeverSplit == \A i \in 1..Len(net) :
                 LET b == net[i].b IN b[Len(b)][2] = Chars[b[Len(b)][1]].w
NeverInterleavedSplit ==
    ~(\E i \in 1..Len(net) : i < Len(net) /\ net[i].dt # net[i + 1].dt
          /\ LET b == net[i].b IN b[Len(b)][2] # Chars[b[Len(b)][1]].w)

\* one line per complete behaviour: the packets as sent and what must have been delivered
EmitScript == Done => PrintT(ToString(<<"SCRIPT", script,
                                        [d \in DTs |-> Written(d)]>>))
=============================================================================
