----------------------------- MODULE ChanGateLC -----------------------------
(***************************************************************************)
(* ChanGate's decision table agrees with Lifecycle.tla on the HONEST       *)
(* subset: for every row of a known channel whose message an honest peer   *)
(* may send (and that Lifecycle has: DATA of one chunk, EOF, CLOSE,        *)
(* WINDOW_ADJUST, the exec request, the reply to the client's exec         *)
(* request) a Lifecycle state is built in which channel 1 of the receiving *)
(* side is in the row's state class and the message is the next one on the *)
(* wire; Lifecycle's own Deliver action and then its deferred callbacks    *)
(* (RunReady) are taken, and the result is compared with the table's       *)
(* entry: accepted or protocol error, states after, session callbacks,     *)
(* packets sent, clean-up.                                                 *)
(* Needs -DTLA-Library=<specs/Lifecycle>.                                  *)
(***************************************************************************)
EXTENDS ChanGate

VARIABLES ls, ll, lscript, stage
allvars == <<row, ls, ll, lscript, stage>>

LC == INSTANCE Lifecycle WITH s <- ls, lbl <- ll, script <- lscript,
          Chans <- {1}, Reject <- {}, MaxOps <- 0, Cuts <- 0, ConnOps <- FALSE,
          WithData <- TRUE, Win <- W, FlowVariant <- "none", FailReqOnClose <- TRUE,
          ResolveOnConnCleanup <- TRUE

Comparable(r) ==
    /\ ValidRow(r) /\ Honest(r) /\ r.chan = "known" /\ r.keep
    /\ r.msg \in {"DATA_SMALL", "EOF", "CLOSE", "ADJ_ONE", "ADJ_ALL", "REQ_START", "SUCCESS"}

Y == IF row.role = "server" THEN "s" ELSE "c"      \* the side under test
X == LC!Other(Y)

TheMsg == CASE row.msg = "DATA_SMALL" -> LC!Msg("DATA", 1)
            [] row.msg = "EOF" -> LC!Msg("EOF", 1)
            [] row.msg = "CLOSE" -> LC!Msg("CLOSE", 1)
            [] row.msg = "ADJ_ONE" -> LC!Adj(1, 1)
            [] row.msg = "ADJ_ALL" -> LC!Adj(1, 8)
            [] row.msg = "REQ_START" -> LC!Msg("REQ", 1)
            [] row.msg = "SUCCESS" -> LC!Msg("SUCC", 1)

Setup ==
    LET p == Pre(row)
    IN [ls EXCEPT !.ss[Y][1] = p.ss, !.rs[Y][1] = p.rs, !.reg[Y][1] = TRUE, !.ord[Y] = <<1>>,
                  !.hasSess[Y][1] = TRUE, !.reading[Y][1] = p.rd, !.rbufN[Y][1] = Len(p.buf),
                  !.swin[Y][1] = p.swin, !.sbufN[Y][1] = p.nsend, !.rwin[Y][1] = p.rwin,
                  !.log[Y][1] = <<"connection_made">>,
                  !.phase[1] = IF row.req THEN "requesting" ELSE "started",
                  !.openW[1] = "ok",
                  !.reqW[1] = IF row.req THEN "pending" ELSE "ok",
                  !.createW[1] = IF row.req THEN "pending" ELSE "ok",
                  !.net[X] = <<TheMsg>>, !.chunk = <<X, 1>>]

InitLC == /\ row \in {r \in Rows : Comparable(r)}
          /\ LC!Init
          /\ stage = "init"

NextLC ==
    \/ /\ stage = "init" /\ ls' = Setup /\ stage' = "ready"
       /\ UNCHANGED <<row, ll, lscript>>
    \/ /\ stage = "ready" /\ LC!Deliver(X) /\ stage' = "delivered"
       /\ UNCHANGED row
    \/ /\ stage = "delivered" /\ LC!RunReady
       /\ UNCHANGED <<row, stage>>

SpecLC == InitLC /\ [][NextLC]_allvars

\* the table's callbacks / packets in Lifecycle's vocabulary
RECURSIVE CbNames(_)
CbNames(q) == IF q = <<>> THEN <<>>
              ELSE IF Head(q)[1] \in {"exec_requested", "request_cb"} THEN CbNames(Tail(q))
              ELSE <<Head(q)[1]>> \o CbNames(Tail(q))
OutMsg(p) == CASE p[1] = "DATA" -> LC!Msg("DATA", 1)
               [] p[1] = "EOF" -> LC!Msg("EOF", 1)
               [] p[1] = "CLOSE" -> LC!Msg("CLOSE", 1)
               [] p[1] = "ADJ" -> LC!Adj(1, p[2])
               [] p[1] = "SUCCESS" -> LC!Msg("SUCC", 1)
               [] OTHER -> LC!Msg(p[1], 1)
OutMsgs(q) == [i \in 1..Len(q) |-> OutMsg(q[i])]

AgreesWithLifecycle ==
    (stage = "delivered" /\ ls.ready = <<>>) =>
        /\ (O.cls = "protocol_error") <=> ~ls.up[Y]
        /\ O.cls # "protocol_error" =>
             /\ O.cls \in {"accept", "ignored"}
             /\ ls.rs[Y][1] = O.rs /\ ls.ss[Y][1] = O.ss /\ ls.reading[Y][1] = O.rd
             /\ ls.rbufN[Y][1] = Len(O.buf) /\ ls.sbufN[Y][1] = O.nsend
             /\ ls.swin[Y][1] = O.swin /\ ls.rwin[Y][1] = O.rwin
             /\ Tail(ls.log[Y][1]) = CbNames(O.cb)
             /\ ls.net[Y] = OutMsgs(O.out)
             /\ ls.reg[Y][1] = ~O.gone
             /\ (row.role = "client" /\ O.create # "none") => ls.createW[1] = O.create

\* every comparable row is driven to the end
Witness == ~(stage = "delivered" /\ ls.ready = <<>> /\ O.gone)
=============================================================================
