------------------------------ MODULE Channel ------------------------------
(***************************************************************************)
(* Data path and flow control of SSH channels in asyncssh (channel.py):    *)
(* write / _flush_send_buf / write_eof on the sending side,                *)
(* _process_data / _accept_data / _deliver_data / _flush_recv_buf /        *)
(* pause_reading / resume_reading / _process_eof / _process_window_adjust  *)
(* on the receiving side, several channels multiplexed over one ordered    *)
(* connection (fwd: data, extended data, EOF; bwd: window adjusts).        *)
(* A data unit is a unique id <<ch, dt, k>>, so loss, duplication,         *)
(* reordering and cross-channel leaks are all visible.                     *)
(***************************************************************************)
EXTENDS Naturals, Sequences, FiniteSets, TLC

CONSTANTS
    Chans,          \* channel ids
    DTs,            \* data types written (0 = normal data, 1 = stderr)
    InitWin,        \* receive window advertised by the reader
    PktSize,        \* maximum packet size advertised by the reader
    MaxUnits,       \* units written per (channel, data type)
    MaxWrite,       \* largest single write
    MaxPause,       \* pause budget per channel
    Rogue,          \* budget of data messages sent by a peer that ignores the window
    High, Low,      \* write buffer high / low water marks of the writer (set_write_buffer_limits)
    ResumeStrict,   \* TRUE: sensitivity variant, writing resumes only BELOW the low-water mark
    AccountBuffered \* TRUE: buffered (undelivered) data counts against the window (repaired code)

VARIABLES
    sstate,     \* [ch -> "open" | "eof_pending" | "eof"]
    sbuf,       \* [ch -> Seq([dt, ids])]   one entry per write()
    swin,       \* [ch -> Nat]
    spaused,    \* [ch -> BOOLEAN]  _send_paused: the session was told pause_writing()
    fwd,        \* Seq of messages writer -> reader
    bwd,        \* Seq of messages reader -> writer
    rstate,     \* [ch -> "open" | "eof_pending" | "eof"]
    rwin,       \* [ch -> Nat]  _recv_window
    rbuf,       \* [ch -> Seq([dt, ids])]
    paused,     \* [ch -> BOOLEAN]
    err,        \* connection ended with a protocol error at the reader
    written,    \* history [ch -> [dt -> Seq(ids)]]
    delivered,  \* history [ch -> [dt -> Seq(ids)]]
    dorder,     \* history [ch -> Seq(<<dt, id>> | "EOF")]  order of callbacks at the reader
    eofSent,    \* [ch -> BOOLEAN]
    npause, nrogue,
    granted,    \* history [ch -> Nat] InitWin + adjusts put on the wire by the reader
    sentTot,    \* history [ch -> Nat] units the writer put on the wire
    gotAdj,     \* history [ch -> Nat] InitWin + adjusts that reached the writer
    accTot,     \* history [ch -> Nat] units accepted (delivered or buffered) by the reader
    lbl

vars == <<sstate, sbuf, swin, spaused, fwd, bwd, rstate, rwin, rbuf, paused, err, written,
          delivered, dorder, eofSent, npause, nrogue, granted, sentTot, gotAdj,
          accTot, lbl>>
view == <<sstate, sbuf, swin, spaused, fwd, bwd, rstate, rwin, rbuf, paused, err, written,
          delivered, dorder, eofSent, npause, nrogue, granted, sentTot, gotAdj, accTot>>

Min(a, b) == IF a < b THEN a ELSE b
RECURSIVE SumLens(_)
SumLens(s) == IF s = <<>> THEN 0 ELSE Len(Head(s).ids) + SumLens(Tail(s))
Buffered(ch) == SumLens(rbuf[ch])

Init ==
    /\ sstate = [c \in Chans |-> "open"] /\ sbuf = [c \in Chans |-> <<>>]
    /\ swin = [c \in Chans |-> InitWin]
    /\ spaused = [c \in Chans |-> FALSE]
    /\ fwd = <<>> /\ bwd = <<>>
    /\ rstate = [c \in Chans |-> "open"] /\ rwin = [c \in Chans |-> InitWin]
    /\ rbuf = [c \in Chans |-> <<>>] /\ paused = [c \in Chans |-> FALSE]
    /\ err = FALSE
    /\ written = [c \in Chans |-> [d \in DTs |-> <<>>]]
    /\ delivered = [c \in Chans |-> [d \in DTs |-> <<>>]]
    /\ dorder = [c \in Chans |-> <<>>]
    /\ eofSent = [c \in Chans |-> FALSE]
    /\ npause = [c \in Chans |-> 0] /\ nrogue = 0
    /\ granted = [c \in Chans |-> InitWin] /\ sentTot = [c \in Chans |-> 0]
    /\ gotAdj = [c \in Chans |-> InitWin] /\ accTot = [c \in Chans |-> 0]
    /\ lbl = <<"init">>

-----------------------------------------------------------------------------
(* _flush_send_buf: emit as much as the window allows, packets of at most   *)
(* min(window, pktsize) units, never spanning two write() entries           *)
RECURSIVE FlushR(_, _, _, _)
FlushR(ch, buf, win, out) ==
    IF buf = <<>> \/ win = 0 THEN <<buf, win, out>>
    ELSE LET p == Min(win, PktSize)
             e == Head(buf)
         IN IF Len(e.ids) > p
            THEN FlushR(ch, <<[e EXCEPT !.ids = SubSeq(e.ids, p + 1, Len(e.ids))]>> \o Tail(buf),
                        win - p,
                        Append(out, [t |-> "data", ch |-> ch, dt |-> e.dt,
                                     ids |-> SubSeq(e.ids, 1, p), n |-> 0]))
            ELSE FlushR(ch, Tail(buf), win - Len(e.ids),
                        Append(out, [t |-> "data", ch |-> ch, dt |-> e.dt, ids |-> e.ids, n |-> 0]))

RECURSIVE OutLen(_)
OutLen(o) == IF o = <<>> THEN 0 ELSE Len(Head(o).ids) + OutLen(Tail(o))

\* the writer-side update shared by write / write_eof / window adjust
DoFlush(ch, buf, win, st) ==
    LET r    == FlushR(ch, buf, win, <<>>)
        eof  == r[1] = <<>> /\ st = "eof_pending"
        out  == IF eof THEN Append(r[3], [t |-> "eof", ch |-> ch, dt |-> 0, ids |-> <<>>, n |-> 0])
                ELSE r[3]
    IN /\ sbuf' = [sbuf EXCEPT ![ch] = r[1]]
       /\ swin' = [swin EXCEPT ![ch] = r[2]]
       /\ sstate' = [sstate EXCEPT ![ch] = IF eof THEN "eof" ELSE st]
       /\ eofSent' = [eofSent EXCEPT ![ch] = @ \/ eof]
       /\ fwd' = fwd \o out
       /\ sentTot' = [sentTot EXCEPT ![ch] = @ + OutLen(r[3])]
       \* _pause_resume_writing at the end of _flush_send_buf
       /\ LET left == SumLens(r[1]) IN
          spaused' = [spaused EXCEPT ![ch] =
                         IF @ THEN ~(IF ResumeStrict THEN left < Low ELSE left <= Low)
                         ELSE left > High]

Ids(ch, dt, from, n) == [i \in 1..n |-> <<ch, dt, from + i>>]

Write(ch, dt, n) ==
    /\ ~err /\ sstate[ch] = "open"
    /\ Len(written[ch][dt]) + n <= MaxUnits
    /\ LET ids == Ids(ch, dt, Len(written[ch][dt]), n) IN
       /\ written' = [written EXCEPT ![ch][dt] = @ \o ids]
       /\ DoFlush(ch, Append(sbuf[ch], [dt |-> dt, ids |-> ids]), swin[ch], "open")
    /\ lbl' = <<"write", ch, dt, n>>
    /\ UNCHANGED <<bwd, rstate, rwin, rbuf, paused, err, delivered, dorder, npause,
                   nrogue, granted, gotAdj, accTot>>

WriteEOF(ch) ==
    /\ ~err /\ sstate[ch] = "open"
    /\ DoFlush(ch, sbuf[ch], swin[ch], "eof_pending")
    /\ lbl' = <<"eof", ch>>
    /\ UNCHANGED <<bwd, rstate, rwin, rbuf, paused, err, written, delivered, dorder,
                   npause, nrogue, granted, gotAdj, accTot>>

\* a peer that ignores the advertised window (for RejectExcess)
RogueSend(ch, n) ==
    /\ ~err /\ nrogue < Rogue /\ sstate[ch] = "open"
    /\ Len(written[ch][0]) + n <= MaxUnits
    /\ LET ids == Ids(ch, 0, Len(written[ch][0]), n) IN
       /\ written' = [written EXCEPT ![ch][0] = @ \o ids]
       /\ fwd' = Append(fwd, [t |-> "data", ch |-> ch, dt |-> 0, ids |-> ids, n |-> 0])
       /\ sentTot' = [sentTot EXCEPT ![ch] = @ + n]
    /\ nrogue' = nrogue + 1
    /\ lbl' = <<"rogue", ch, n>>
    /\ UNCHANGED <<sstate, sbuf, swin, spaused, bwd, rstate, rwin, rbuf, paused, err, delivered,
                   dorder, eofSent, npause, granted, gotAdj, accTot>>

-----------------------------------------------------------------------------
(* reader side *)

\* _deliver_data applied to a sequence of buffered chunks (resume / flush)
RECURSIVE DeliverAll(_, _, _, _, _, _)
\* returns <<rwin, delivered[ch], dorder[ch], adjust messages, granted>>
DeliverAll(ch, chunks, win, del, ord, adj) ==
    IF chunks = <<>> THEN <<win, del, ord, adj>>
    ELSE LET c   == Head(chunks)
             w1  == win - Len(c.ids)
             low == 2 * w1 < InitWin
             w2  == IF low THEN InitWin ELSE w1
             a2  == IF low THEN Append(adj, [t |-> "adjust", ch |-> ch, dt |-> 0,
                                             ids |-> <<>>, n |-> InitWin - w1])
                    ELSE adj
         IN DeliverAll(ch, Tail(chunks), w2,
                       [del EXCEPT ![c.dt] = @ \o c.ids],
                       ord \o [i \in 1..Len(c.ids) |-> <<c.dt, c.ids[i]>>], a2)

RECURSIVE AdjSum(_)
AdjSum(a) == IF a = <<>> THEN 0 ELSE Head(a).n + AdjSum(Tail(a))

\* _flush_recv_buf after the buffer has been handed over: EOF if pending
AfterFlush(ch, st, bufEmpty) == IF bufEmpty /\ st = "eof_pending" THEN "eof" ELSE st

\* pi: the session calls pause_reading() from inside data_received()
DeliverFwdP(pi) ==
    /\ ~err /\ fwd # <<>>
    /\ LET m == Head(fwd) ch == m.ch IN
       /\ fwd' = Tail(fwd)
       /\ lbl' = <<"dfwd", m.t, ch, pi>>
       /\ pi => (m.t = "data" /\ ~paused[ch] /\ npause[ch] < MaxPause /\ rstate[ch] = "open"
                 /\ Len(m.ids) <= rwin[ch])
       /\ npause' = [npause EXCEPT ![ch] = IF pi THEN @ + 1 ELSE @]
       /\ UNCHANGED <<sstate, sbuf, swin, spaused, written, eofSent, nrogue, sentTot, gotAdj>>
       /\ CASE m.t = "data" ->
                 IF rstate[ch] # "open"
                    \/ Len(m.ids) > rwin[ch] - (IF AccountBuffered THEN Buffered(ch) ELSE 0)
                 THEN /\ err' = TRUE
                      /\ UNCHANGED <<bwd, rstate, rwin, rbuf, paused, delivered, dorder,
                                     granted, accTot>>
                 ELSE /\ accTot' = [accTot EXCEPT ![ch] = @ + Len(m.ids)]
                      /\ IF paused[ch]
                         THEN /\ rbuf' = [rbuf EXCEPT ![ch] = Append(@, [dt |-> m.dt, ids |-> m.ids])]
                              /\ UNCHANGED <<bwd, rstate, rwin, paused, err, delivered,
                                             dorder, granted>>
                         ELSE LET r == DeliverAll(ch, <<[dt |-> m.dt, ids |-> m.ids]>>, rwin[ch],
                                                  delivered[ch], dorder[ch], <<>>) IN
                              /\ rwin' = [rwin EXCEPT ![ch] = r[1]]
                              /\ delivered' = [delivered EXCEPT ![ch] = r[2]]
                              /\ dorder' = [dorder EXCEPT ![ch] = r[3]]
                              /\ bwd' = bwd \o r[4]
                              /\ granted' = [granted EXCEPT ![ch] = @ + AdjSum(r[4])]
                              /\ paused' = [paused EXCEPT ![ch] = pi]
                              /\ UNCHANGED <<rstate, rbuf, err>>
            [] m.t = "eof" ->
                 IF rstate[ch] # "open"
                 THEN /\ err' = TRUE
                      /\ UNCHANGED <<bwd, rstate, rwin, rbuf, paused, delivered, dorder,
                                     granted, accTot>>
                 ELSE \* _process_eof: eof_pending, then _flush_recv_buf
                      IF paused[ch] /\ rbuf[ch] # <<>>
                      THEN /\ rstate' = [rstate EXCEPT ![ch] = "eof_pending"]
                           /\ UNCHANGED <<bwd, rwin, rbuf, paused, err, delivered, dorder,
                                          granted, accTot>>
                      ELSE \* buffer is empty (it always is when not paused)
                           /\ rstate' = [rstate EXCEPT ![ch] = "eof"]
                           /\ dorder' = [dorder EXCEPT ![ch] = Append(@, <<"EOF">>)]
                           /\ UNCHANGED <<bwd, rwin, rbuf, paused, err, delivered, granted,
                                          accTot>>
            [] OTHER -> FALSE

DeliverFwd == DeliverFwdP(FALSE) \/ DeliverFwdP(TRUE)

DeliverBwd ==
    /\ ~err /\ bwd # <<>>
    /\ LET m == Head(bwd) ch == m.ch IN
       /\ bwd' = Tail(bwd)
       /\ gotAdj' = [gotAdj EXCEPT ![ch] = @ + m.n]
       /\ DoFlush(ch, sbuf[ch], swin[ch] + m.n, sstate[ch])
       /\ lbl' = <<"dbwd", ch, m.n>>
    /\ UNCHANGED <<rstate, rwin, rbuf, paused, err, written, delivered, dorder, npause,
                   nrogue, granted, accTot>>

Pause(ch) ==
    /\ ~err /\ ~paused[ch] /\ npause[ch] < MaxPause /\ rstate[ch] # "eof"
    /\ paused' = [paused EXCEPT ![ch] = TRUE]
    /\ npause' = [npause EXCEPT ![ch] = @ + 1]
    /\ lbl' = <<"pause", ch>>
    /\ UNCHANGED <<sstate, sbuf, swin, spaused, fwd, bwd, rstate, rwin, rbuf, err, written,
                   delivered, dorder, eofSent, nrogue, granted, sentTot, gotAdj, accTot>>

\* resume_reading(): the flush loop hands over the first k buffered chunks; with
\* rp the session pauses again from inside the callback of the k-th chunk
ResumeP(ch, k, rp) ==
    /\ ~err /\ paused[ch]
    /\ k \in 0..Len(rbuf[ch])
    /\ (k < Len(rbuf[ch])) => rp
    /\ rp => (k >= 1 /\ npause[ch] < MaxPause)
    /\ paused' = [paused EXCEPT ![ch] = rp]
    /\ npause' = [npause EXCEPT ![ch] = IF rp THEN @ + 1 ELSE @]
    /\ LET r == DeliverAll(ch, SubSeq(rbuf[ch], 1, k), rwin[ch], delivered[ch], dorder[ch], <<>>)
           st == AfterFlush(ch, rstate[ch], k = Len(rbuf[ch])) IN
       /\ rwin' = [rwin EXCEPT ![ch] = r[1]]
       /\ delivered' = [delivered EXCEPT ![ch] = r[2]]
       /\ dorder' = [dorder EXCEPT ![ch] =
                        IF st = "eof" /\ rstate[ch] = "eof_pending" THEN Append(r[3], <<"EOF">>) ELSE r[3]]
       /\ bwd' = bwd \o r[4]
       /\ granted' = [granted EXCEPT ![ch] = @ + AdjSum(r[4])]
       /\ rstate' = [rstate EXCEPT ![ch] = st]
       /\ rbuf' = [rbuf EXCEPT ![ch] = SubSeq(@, k + 1, Len(@))]
    /\ lbl' = <<"resume", ch, k, rp>>
    /\ UNCHANGED <<sstate, sbuf, swin, spaused, fwd, err, written, eofSent, nrogue,
                   sentTot, gotAdj, accTot>>

Resume(ch) == \E k \in 0..Len(rbuf[ch]), rp \in BOOLEAN : ResumeP(ch, k, rp)
ResumeFull(ch) == ResumeP(ch, Len(rbuf[ch]), FALSE)

Next ==
    \/ \E ch \in Chans, dt \in DTs, n \in 1..MaxWrite : Write(ch, dt, n)
    \/ \E ch \in Chans : WriteEOF(ch) \/ Pause(ch) \/ Resume(ch)
    \/ \E ch \in Chans, n \in 1..MaxWrite : RogueSend(ch, n)
    \/ DeliverFwd \/ DeliverBwd

Spec == Init /\ [][Next]_vars

\* for liveness: the network delivers and a paused reader eventually resumes
Fair == /\ WF_vars(DeliverFwd) /\ WF_vars(DeliverBwd)
        /\ \A ch \in Chans : WF_vars(ResumeFull(ch))
LiveSpec == Spec /\ Fair

-----------------------------------------------------------------------------
(* Properties *)
IsPrefix(s, t) == Len(s) <= Len(t) /\ \A i \in 1..Len(s) : s[i] = t[i]

\* C07
DeliveredIsPrefix == \A ch \in Chans, dt \in DTs : IsPrefix(delivered[ch][dt], written[ch][dt])
Isolation == \A ch \in Chans, dt \in DTs : \A i \in 1..Len(delivered[ch][dt]) :
                 delivered[ch][dt][i][1] = ch /\ delivered[ch][dt][i][2] = dt
EOFLast == \A ch \in Chans :
    /\ (\E i \in 1..Len(dorder[ch]) : dorder[ch][i] = <<"EOF">>) =>
          /\ eofSent[ch]
          /\ dorder[ch][Len(dorder[ch])] = <<"EOF">>
          /\ \A dt \in DTs : delivered[ch][dt] = written[ch][dt]
    /\ Cardinality({i \in 1..Len(dorder[ch]) : dorder[ch][i] = <<"EOF">>}) <= 1
\* order across data types on one channel is the order written (one ordered stream)
\* C08
NeverExceedPeerWindow == nrogue = 0 => \A ch \in Chans : sentTot[ch] <= gotAdj[ch]
NeverExceedPktSize == nrogue = 0 => \A i \in 1..Len(fwd) : Len(fwd[i].ids) <= PktSize
NeverAcceptBeyondGrant == \A ch \in Chans : accTot[ch] <= granted[ch]
BufferBounded == \A ch \in Chans : Buffered(ch) <= InitWin
WindowSane == \A ch \in Chans : rwin[ch] <= InitWin /\ swin[ch] <= InitWin + MaxUnits * 2
\* the session is only kept from writing while more than the low-water mark is buffered
\* (a writer waiting in drain() is released when the buffer has drained)
WriterNotStuck == \A ch \in Chans : spaused[ch] => SumLens(sbuf[ch]) > Low
\* an honest pair never runs into the protocol error
HonestNoError == nrogue = 0 => ~err

\* liveness: with the network delivering and the reader eventually reading,
\* everything written is delivered, and EOF follows if it was signalled
AllDelivered == \A ch \in Chans :
    /\ \A dt \in DTs : delivered[ch][dt] = written[ch][dt]
    /\ (sstate[ch] # "open" => rstate[ch] = "eof")
Progress == (nrogue = 0) => <>[](err \/ AllDelivered)
NoDeadlock == <>[](err \/ AllDelivered)

\* witnesses (expected to be violated)
NeverAdjust == \A ch \in Chans : granted[ch] = InitWin
NeverBuffered == \A ch \in Chans : rbuf[ch] = <<>>
NeverErr == ~err
=============================================================================
