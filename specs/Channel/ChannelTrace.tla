---------------------------- MODULE ChannelTrace ----------------------------
(***************************************************************************)
(* Code -> spec conformance for Channel.tla: executions RECORDED from      *)
(* naturally scheduled sessions (one asyncio task per channel and data     *)
(* type writing on the server, reader tasks pausing and resuming the       *)
(* client sessions at random virtual times, sessions pausing themselves    *)
(* from inside data_received, random segmentation of both byte streams so  *)
(* that one data_received call carries many packets or a fraction of one)  *)
(* are checked to be behaviours of Channel.tla.                            *)
(*                                                                         *)
(* One event per spec action, logged at its linearization point:           *)
(*   write ch dt n     the writer's application called write() (on return) *)
(*   eof ch            ... write_eof()                                     *)
(*   dfwd t ch pi      the reader finished processing the next DATA /      *)
(*                     EXTENDED_DATA / EOF message (pkt_done hook); pi =   *)
(*                     its session paused itself inside data_received      *)
(*   dbwd ch n         the writer finished processing a WINDOW_ADJUST      *)
(*   pause ch          the reader's application called pause_reading()     *)
(*   resume ch k rp    ... resume_reading(): k buffered chunks were handed *)
(*                     over, rp = the session paused again inside          *)
(* Each event carries what the acting endpoint put on the wire during the  *)
(* step (out: <<kind, dt, n>>) and its state for that channel afterwards:  *)
(*   writer events: swin (_send_window), sbufN (bytes in _send_buf),       *)
(*                  sstate (_send_state), spaused (_send_paused)           *)
(*   reader events: rwin (_recv_window), rbufN (chunks in _recv_buf),      *)
(*                  paused (_recv_paused), rstate (_recv_state),           *)
(*                  dlen (bytes the session has received so far, per dt)   *)
(* All variables of the acting side are bound, so the search is linear.    *)
(***************************************************************************)
EXTENDS Channel, Json, IOUtils, TLCExt

CONSTANT Strict

Traces == JsonDeserialize(IOEnv.TRACE_FILE)

VARIABLES tid, l
tvars == <<vars, tid, l>>

TraceInit == Init /\ tid \in 1..Len(Traces) /\ l = 1

\* messages appended to q by this step, as <<kind, dt, n>>
Kinds(q0, q1) == [i \in 1..(Len(q1) - Len(q0)) |->
                    LET m == q1[Len(q0) + i] IN
                    <<m.t, m.dt, IF m.t = "data" THEN Len(m.ids) ELSE m.n>>]
AsTuples(o) == [i \in 1..Len(o) |-> <<o[i][1], o[i][2], o[i][3]>>]

RECURSIVE BufUnits(_)
BufUnits(b) == IF b = <<>> THEN 0 ELSE Len(Head(b).ids) + BufUnits(Tail(b))

WriterMatch(e) ==
    /\ Kinds(fwd, fwd') = AsTuples(e.out)
    /\ swin'[e.ch] = e.swin
    /\ BufUnits(sbuf'[e.ch]) = e.sbufN
    /\ sstate'[e.ch] = e.sstate
    /\ spaused'[e.ch] = e.spaused
ReaderMatch(e) ==
    /\ Kinds(bwd, bwd') = AsTuples(e.out)
    /\ rwin'[e.ch] = e.rwin
    /\ Len(rbuf'[e.ch]) = e.rbufN
    /\ paused'[e.ch] = e.paused
    /\ rstate'[e.ch] = e.rstate
    /\ err' = e.err
    /\ \A d \in DTs : Len(delivered'[e.ch][d]) = e.dlen[d + 1]

TraceStep ==
    /\ l <= Len(Traces[tid].ev)
    /\ LET e == Traces[tid].ev[l] IN
         \/ e.e = "write"  /\ Write(e.ch, e.dt, e.n)  /\ (Strict => WriterMatch(e))
         \/ e.e = "eof"    /\ WriteEOF(e.ch)          /\ (Strict => WriterMatch(e))
         \/ e.e = "dbwd"   /\ DeliverBwd /\ lbl' = <<"dbwd", e.ch, e.n>>
                           /\ (Strict => WriterMatch(e))
         \/ e.e = "dfwd"   /\ DeliverFwdP(e.pi) /\ lbl' = <<"dfwd", e.t, e.ch, e.pi>>
                           /\ (Strict => ReaderMatch(e))
         \/ e.e = "pause"  /\ Pause(e.ch)             /\ (Strict => ReaderMatch(e))
         \/ e.e = "resume" /\ ResumeP(e.ch, e.k, e.rp) /\ (Strict => ReaderMatch(e))
    /\ l' = l + 1
    /\ UNCHANGED tid

TraceSpec == TraceInit /\ [][TraceStep]_tvars

TraceProgress ==
    /\ IF l = 1 THEN TLCSet(tid, 0) ELSE TRUE
    /\ IF l - 1 > TLCGet(tid) THEN TLCSet(tid, l - 1) ELSE TRUE
TraceReport ==
    \A i \in 1..Len(Traces) :
        PrintT(<<"TRACE", i, TLCGet(i), Len(Traces[i].ev)>>)

\* the C07 / C08 invariants of Channel.tla, evaluated in every state of every recorded execution
TraceInv == /\ DeliveredIsPrefix /\ Isolation /\ EOFLast
            /\ NeverExceedPeerWindow /\ NeverExceedPktSize /\ NeverAcceptBeyondGrant
            /\ BufferBounded /\ HonestNoError /\ WriterNotStuck

\* diagnosis (Strict = FALSE, one trace): evaluated on the state reached after event l-1
Prev == Traces[tid].ev[l - 1]
IsW == Prev.e \in {"write", "eof", "dbwd"}
DiagSwin == (l > 1 /\ IsW) => swin[Prev.ch] = Prev.swin
DiagSbuf == (l > 1 /\ IsW) => BufUnits(sbuf[Prev.ch]) = Prev.sbufN
DiagSstate == (l > 1 /\ IsW) => sstate[Prev.ch] = Prev.sstate
DiagSpaused == (l > 1 /\ IsW) => spaused[Prev.ch] = Prev.spaused
DiagRwin == (l > 1 /\ ~IsW) => rwin[Prev.ch] = Prev.rwin
DiagRbuf == (l > 1 /\ ~IsW) => Len(rbuf[Prev.ch]) = Prev.rbufN
DiagPaused == (l > 1 /\ ~IsW) => paused[Prev.ch] = Prev.paused
DiagRstate == (l > 1 /\ ~IsW) => rstate[Prev.ch] = Prev.rstate
DiagErr == (l > 1 /\ ~IsW) => err = Prev.err
DiagDlen == (l > 1 /\ ~IsW) => \A d \in DTs : Len(delivered[Prev.ch][d]) = Prev.dlen[d + 1]
=============================================================================
