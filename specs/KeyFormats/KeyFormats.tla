----------------------------- MODULE KeyFormats -----------------------------
(***************************************************************************)
(* C15 - keys survive every export/import path and interoperate.           *)
(*                                                                         *)
(* What this specification decides (TLC-exhaustive at the given bounds):   *)
(*  Part "priv"  : the applicability / outcome table of                    *)
(*                 SSHKey.export_private_key x import_private_key:         *)
(*                 which (key type, format, passphrase, cipher, hash, PBE  *)
(*                 version) are legal, which error class the others give,  *)
(*                 and what importing the result with no / the right / a   *)
(*                 wrong passphrase gives.  Given operationally (the order *)
(*                 of checks in public_key.py:1124-1222, pbe.py:400-496)   *)
(*                 and declaratively (Legal); TableEquiv ties them.        *)
(*  Part "pub"   : same for export_public_key x import_public_key.         *)
(*  Part "scanpriv" / "scanpub" : the multi-key file scanner               *)
(*                 (_match_next + _decode_*_list, public_key.py:2369-2421, *)
(*                 2878-2927) as a machine over a sequence of blocks;      *)
(*                 ScanEquiv: its output is the declarative expectation;   *)
(*                 Progress: every iteration consumes input.               *)
(*  Part "chain" : export -> import -> re-export in another format ->      *)
(*                 import -> convert_to_public -> export -> import chains  *)
(*                 with the comment tracked; ChainInv: the key id and its  *)
(*                 public half never change, a key never becomes private   *)
(*                 again, and the comment is the original one exactly when *)
(*                 every format on the way carries comments.               *)
(* Every finished case is printed with its predicted abstract outcome and  *)
(* executed on real keys by harness/drivers/key_formats.py.                *)
(*                                                                         *)
(* What it does not decide: that the bytes written are right.  Equality of *)
(* keys after a round trip and agreement with PyCA / ssh-keygen are        *)
(* decided by the harness (exploration).                                   *)
(***************************************************************************)
EXTENDS Naturals, Sequences, FiniteSets, TLC

CONSTANTS
    Part,       \* "priv" | "pub" | "scanpriv" | "scanpub" | "chain" | "layout" | "keylist" | "encoding" | "passval"
    Variant,    \* "code" = faithful model; others are seeded-wrong (sensitivity)
    Bcrypt,     \* bcrypt with KDF support is installed (detected at run time)
    MaxBlocks,  \* scanner: maximal number of text blocks in a file
    MaxDepth,   \* chain: maximal number of steps
    Emit

VARIABLES c,      \* the case (constant during a behaviour)
          pc, res, st
vars == <<c, pc, res, st>>

-----------------------------------------------------------------------------
(* Key types and formats *)
PrivKts   == {"rsa", "dsa", "ec256", "ec384", "ec521", "ed25519", "ed448"}
PubOnly   == {"sk-ed25519", "sk-ecdsa"}
Pkcs1Kts  == {"rsa", "dsa", "ec256", "ec384", "ec521"}
Pkcs1PubKts == {"rsa", "dsa"}     \* "PKCS#1 is not supported for EC public keys"
Pkcs8Kts  == PrivKts
PrivFmts  == {"openssh", "pkcs1-der", "pkcs1-pem", "pkcs8-der", "pkcs8-pem"}
PubFmts   == {"openssh", "rfc4716", "pkcs1-der", "pkcs1-pem", "pkcs8-der", "pkcs8-pem"}

Ciphers == {"aes128-cbc", "aes192-cbc", "aes256-cbc", "des-cbc", "des3-cbc", "des2-cbc",
            "rc4-40", "rc4-128", "blowfish-cbc", "cast128-cbc", "aes256-ctr",
            "chacha20-poly1305@openssh.com", "bogus"}
Hashes  == {"md5", "sha1", "sha224", "sha256", "sha384", "sha512", "bogus"}
Pbes    == {1, 2, 3}

Pkcs1Ciphers == {"aes128-cbc", "aes192-cbc", "aes256-cbc", "des-cbc", "des3-cbc"}
P1Pairs == {<<"des-cbc", "md5">>, <<"des-cbc", "sha1">>, <<"des2-cbc", "sha1">>,
            <<"des3-cbc", "sha1">>, <<"rc4-40", "sha1">>, <<"rc4-128", "sha1">>}
P2Ciphers == {"aes128-cbc", "aes192-cbc", "aes256-cbc", "blowfish-cbc", "cast128-cbc",
              "des-cbc", "des3-cbc"}
Prfs == {"sha1", "sha224", "sha256", "sha384", "sha512"}
\* names that are SSH transport ciphers (usable for the OpenSSH key format)
SshCiphers == {"aes128-cbc", "aes192-cbc", "aes256-cbc", "blowfish-cbc", "cast128-cbc",
               "aes256-ctr", "chacha20-poly1305@openssh.com"}

-----------------------------------------------------------------------------
(* Part "priv": export_private_key / import_private_key outcome table      *)

PrivCases ==
    [kt : PrivKts, fmt : PrivFmts \cup {"bogus"}, pass : {FALSE}, cipher : {"aes256-cbc"},
     hash : {"sha256"}, pbe : {2}, ipass : {"none", "right"}]
      \cup
    [kt : PrivKts, fmt : PrivFmts \cup {"bogus"}, pass : {TRUE}, cipher : Ciphers,
     hash : Hashes, pbe : Pbes, ipass : {"none", "right", "wrong"}]

EncOK(k) ==     \* the (cipher, hash, version) triple is usable for the format
    CASE k.fmt = "pkcs1-pem" -> k.cipher \in Pkcs1Ciphers
      [] k.fmt \in {"pkcs8-der", "pkcs8-pem"} ->
            \/ k.pbe = 1 /\ <<k.cipher, k.hash>> \in P1Pairs
            \/ k.pbe = 2 /\ k.cipher \in P2Ciphers /\ k.hash \in Prfs
      [] k.fmt = "openssh" -> k.cipher \in SshCiphers /\ Bcrypt
      [] OTHER -> FALSE

Legal(k) ==
    /\ k.fmt \in PrivFmts
    /\ (k.fmt \in {"pkcs1-der", "pkcs1-pem"} => k.kt \in Pkcs1Kts)
    /\ (k.pass => EncOK(k))

\* the checks in the order the code performs them; result of the first failing one
ExportPrivOutcome(k) ==
    CASE k.fmt \in {"pkcs1-der", "pkcs1-pem"} ->
            IF k.kt \notin Pkcs1Kts THEN "KeyExportError"
            ELSE IF ~k.pass THEN "ok"
            ELSE IF k.fmt = "pkcs1-der" THEN "KeyExportError"
            ELSE IF k.cipher \in Pkcs1Ciphers THEN "ok" ELSE "KeyEncryptionError"
      [] k.fmt \in {"pkcs8-der", "pkcs8-pem"} ->
            IF ~k.pass THEN "ok"
            ELSE IF k.pbe = 1 /\ <<k.cipher, k.hash>> \in P1Pairs THEN "ok"
            ELSE IF k.pbe = 2 /\ k.cipher \in P2Ciphers
                 THEN (IF k.hash \in Prfs \/ (Variant = "any_hash") THEN "ok"
                       ELSE "KeyEncryptionError")
            ELSE "KeyEncryptionError"
      [] k.fmt = "openssh" ->
            IF ~k.pass THEN "ok"
            ELSE IF k.cipher \notin SshCiphers THEN "KeyEncryptionError"
            ELSE IF ~Bcrypt THEN "KeyExportError" ELSE "ok"
      [] OTHER -> "KeyExportError"

\* importing what was exported
ImportPrivOutcome(k) ==
    IF ~k.pass THEN "ok"                     \* a passphrase for a clear key is ignored
    ELSE CASE k.ipass = "right" -> "ok"
           [] k.ipass = "none"  -> "KeyImportError"
           [] k.ipass = "wrong" -> IF Variant = "wrong_pass_ok" THEN "ok" ELSE "KeyImportError"

PrivCarriesComment(fmt) == fmt = "openssh"

-----------------------------------------------------------------------------
(* Part "pub": export_public_key / import_public_key                       *)

PubCases == [kt : PrivKts \cup PubOnly, fmt : PubFmts \cup {"bogus"}]

PubLegal(k) ==
    /\ k.fmt \in PubFmts
    /\ (k.fmt \in {"pkcs1-der", "pkcs1-pem"} => k.kt \in Pkcs1PubKts)
    /\ (k.fmt \in {"pkcs8-der", "pkcs8-pem"} => k.kt \in Pkcs8Kts)

ExportPubOutcome(k) ==
    CASE k.fmt \in {"pkcs1-der", "pkcs1-pem"} ->
            IF k.kt \in Pkcs1PubKts THEN "ok" ELSE "KeyExportError"
      [] k.fmt \in {"pkcs8-der", "pkcs8-pem"} ->
            IF k.kt \in Pkcs8Kts THEN "ok" ELSE "KeyExportError"
      [] k.fmt \in {"openssh", "rfc4716"} -> "ok"
      [] OTHER -> "KeyExportError"

PubCarriesComment(fmt) == fmt \in {"openssh", "rfc4716"}

-----------------------------------------------------------------------------
(* Parts "scanpriv" / "scanpub": the multi-key file scanner                *)
(* A file is: an optional run of DER blobs (recognised only at the very    *)
(* start of an iteration, i.e. at the head of the file or right after      *)
(* another DER blob), then text blocks.                                    *)

PrivKinds == {"pem", "pemenc", "comment", "blank", "junk", "pubblock", "unterm"}
PubKinds  == {"ossh", "rfc", "pempub", "comment", "blank", "junk", "badkey",
              "untermpem", "untermrfc", "privpem"}

RECURSIVE SeqsUpTo(_, _)
SeqsUpTo(S, n) == IF n = 0 THEN {<<>>}
                  ELSE LET R == SeqsUpTo(S, n - 1)
                       IN R \cup {Append(s, x) : s \in {r \in R : Len(r) = n - 1}, x \in S}

ScanPrivCases ==
    [blocks : {d \o t : d \in {<<>>, <<"der">>, <<"der", "der">>}, t \in SeqsUpTo(PrivKinds, MaxBlocks)},
     eol : {"lf", "crlf"}, finalnl : BOOLEAN, pass : BOOLEAN]
\* An unterminated RFC 4716 block followed later by a complete one is left out:
\* the footer search then finds the later footer and what the concatenated
\* base64 decodes to depends on the key bytes (padding), not on the structure.
\* (Unterminated PEM blocks carry a PEM type no other block of the file uses.)
PubWellPosed(t) == \A i \in DOMAIN t : \A j \in DOMAIN t :
                      (i < j /\ t[i] = "untermrfc") => t[j] # "rfc"
ScanPubCases ==
    [blocks : {d \o t : d \in {<<>>, <<"der">>},
                        t \in {u \in SeqsUpTo(PubKinds, MaxBlocks) : PubWellPosed(u)}},
     eol : {"lf", "crlf"}, finalnl : BOOLEAN, pass : {FALSE}]

IsPrivKey(b) == b \in {"pem", "pemenc", "der"}
IsPubKey(b)  == b \in {"ossh", "rfc", "pempub", "der"}
\* blocks at which the public scanner stops (a key or an error)
PubStop(b)   == b \in {"ossh", "rfc", "pempub", "badkey", "untermpem", "untermrfc"}
PrivStop(b)  == b \in {"pem", "pemenc", "unterm"}

Indices(s, P(_)) == {i \in DOMAIN s : P(s[i])}
Min(S) == CHOOSE x \in S : \A y \in S : x <= y
Max(S) == CHOOSE x \in S : \A y \in S : x >= y

\* Declarative expectation: sequence of indices (into blocks) of the keys returned, or error
ExpectPriv(k) ==
    LET b == k.blocks IN
    IF (\E i \in DOMAIN b : b[i] = "unterm") \/ (~k.pass /\ \E i \in DOMAIN b : b[i] = "pemenc")
    THEN [err |-> TRUE, keys |-> <<>>]
    ELSE [err |-> FALSE,
          keys |-> SelectSeq([i \in DOMAIN b |-> i], LAMBDA i : IsPrivKey(b[i]))]

ExpectPub(k) ==
    LET b == k.blocks
        pubs == Indices(b, IsPubKey)
        lastpub == IF pubs = {} THEN 0 ELSE Max(pubs)
    IN
    IF \E i \in DOMAIN b : b[i] \in {"badkey", "untermpem", "untermrfc"}
    THEN [err |-> TRUE, keys |-> <<>>]
    ELSE [err |-> FALSE,
          \* private PEM blocks are converted only when no public key follows them
          keys |-> SelectSeq([i \in DOMAIN b |-> i],
                             LAMBDA i : IsPubKey(b[i]) \/ (b[i] = "privpem" /\ i > lastpub))]

\* Operational scanner.  st = [pos, keys, err]; pos = number of blocks consumed.
ScanInit == [pos |-> 0, keys |-> <<>>, err |-> FALSE]

ScanStep(k, s) ==       \* one iteration of the `while data:' loop
    LET b == k.blocks
        n == Len(b)
        rest == {i \in (s.pos + 1)..n : TRUE}
        priv == Part = "scanpriv"
        stops == {i \in rest : IF priv THEN PrivStop(b[i]) ELSE PubStop(b[i])}
    IN
    IF b[s.pos + 1] = "der"
    THEN [s EXCEPT !.pos = s.pos + 1, !.keys = Append(s.keys, s.pos + 1)]
    ELSE IF stops # {}
    THEN LET i == Min(stops) IN
         IF b[i] \in {"unterm", "badkey", "untermpem", "untermrfc"}
            \/ (b[i] = "pemenc" /\ ~k.pass)
         THEN [s EXCEPT !.err = TRUE, !.pos = n]
         ELSE IF Variant = "stop_at_junk" /\ \E j \in (s.pos + 1)..(i - 1) : b[j] = "junk"
         THEN [s EXCEPT !.pos = n]
         ELSE [s EXCEPT !.pos = i, !.keys = Append(s.keys, i)]
    ELSE \* nothing found by the scan
         IF priv THEN [s EXCEPT !.pos = n]
         ELSE \* _decode_public falls back to the first private PEM block
              LET pp == {i \in rest : b[i] = "privpem"} IN
              IF pp = {} THEN [s EXCEPT !.pos = n]
              ELSE [s EXCEPT !.pos = Min(pp), !.keys = Append(s.keys, Min(pp))]

-----------------------------------------------------------------------------
(* Part "chain"                                                            *)

Cmts == {"none", "ascii", "utf8", "spaces", "nonutf8", "edgews", "long"}
ChainCases == [kt : PrivKts, cmt : Cmts]

\* abstract key object / byte string in a chain
\* obj : [id, priv, cmt]   cmt \in {"orig", "trimmed", "none"}
\* hist: sequence of <<action, fmt, enc, priv, cmt>> (post-state)
EncChoices(fmt) == IF fmt \in {"pkcs1-pem", "pkcs8-pem", "pkcs8-der"} THEN {FALSE, TRUE}
                   ELSE IF fmt = "openssh" /\ Bcrypt THEN {FALSE, TRUE} ELSE {FALSE}

PrivFmtOK(kt, fmt) == fmt \in {"pkcs1-der", "pkcs1-pem"} => kt \in Pkcs1Kts
PubFmtOK(kt, fmt) == /\ (fmt \in {"pkcs1-der", "pkcs1-pem"} => kt \in Pkcs1PubKts)
                     /\ (fmt \in {"pkcs8-der", "pkcs8-pem"} => kt \in Pkcs8Kts)

\* comment after passing through a format
Through(cmt, cls, carries, textline) ==
    IF cls = "none" \/ ~carries THEN "none"
    ELSE IF cmt = "none" THEN "none"
    ELSE IF textline /\ cls = "edgews" THEN "trimmed"
    ELSE cmt

ChainInitSt == [id |-> 1, priv |-> TRUE, cmt |-> "orig", form |-> "obj", fmt |-> "-",
                enc |-> FALSE, pub |-> FALSE, hist |-> <<>>]

ChainNextSts(k, s) ==
    IF Len(s.hist) >= MaxDepth THEN {}
    ELSE IF s.form = "obj"
    THEN (IF s.priv
          THEN UNION {{[s EXCEPT !.form = "bytes", !.fmt = f, !.enc = e, !.pub = FALSE,
                          !.hist = Append(s.hist, <<"export_private", f, e, s.priv, s.cmt>>)]
                         : e \in EncChoices(f)}
                      : f \in {g \in PrivFmts : PrivFmtOK(k.kt, g)}}
          ELSE {})
         \cup
         {[s EXCEPT !.form = "bytes", !.fmt = f, !.enc = FALSE, !.pub = TRUE,
                    !.hist = Append(s.hist, <<"export_public", f, FALSE, s.priv, s.cmt>>)]
            : f \in {g \in PubFmts : PubFmtOK(k.kt, g)}}
         \cup
         (IF s.priv
          THEN {[s EXCEPT !.priv = FALSE,
                          !.hist = Append(s.hist, <<"convert_to_public", "-", FALSE, FALSE, s.cmt>>)]}
          ELSE {})
    ELSE \* bytes -> import
         IF s.pub
         THEN LET nc == Through(s.cmt, k.cmt, PubCarriesComment(s.fmt), s.fmt = "openssh") IN
              {[s EXCEPT !.form = "obj", !.priv = FALSE, !.cmt = nc,
                         !.hist = Append(s.hist, <<"import_public", s.fmt, FALSE, FALSE, nc>>)]}
         ELSE LET nc == Through(s.cmt, k.cmt, PrivCarriesComment(s.fmt), FALSE) IN
              {[s EXCEPT !.form = "obj", !.cmt = nc,
                         !.hist = Append(s.hist, <<"import_private", s.fmt, s.enc, TRUE, nc>>)]}
              \cup
              \* import_public_key() applied to a clear private key file
              (IF ~s.enc /\ s.fmt \notin {"pkcs1-der", "pkcs8-der"} /\ Variant # "nopubfrompriv"
               THEN {[s EXCEPT !.form = "obj", !.priv = FALSE, !.cmt = "none",
                               !.hist = Append(s.hist, <<"import_public_from_private", s.fmt,
                                                         FALSE, FALSE, "none">>)]}
               ELSE {})

-----------------------------------------------------------------------------
(* Part "layout": text files as OTHER implementations write them.          *)
(* RFC 4716: headers folded over several physical lines with a trailing     *)
(* backslash (section 3.3: lines of at most 72 bytes), several headers in    *)
(* any order, private x- headers, quoted / unquoted comment, blank line,    *)
(* CRLF, base64 lines of 72 / 64 / 40 characters, trailing white space, no  *)
(* final newline.  The header unfolding is a small machine: one step per    *)
(* physical header line; UnfoldOK says the comment is the concatenation of  *)
(* ALL physical lines of the Comment header.  PEM and one-line OpenSSH      *)
(* layouts are enumerated for the harness (prediction: same key; comment as *)
(* written for OpenSSH lines, none for PEM).                                *)

HdrArr == {<<>>, <<"C">>, <<"S", "C">>, <<"C", "X">>, <<"X", "C", "S">>}

RfcCases ==
    [fmt : {"rfc4716"}, hdrs : HdrArr, nl : 1..4, onl : {1, 3}, quoted : BOOLEAN,
     eol : {"lf", "crlf"}, width : {72, 64, 40}, trailws : BOOLEAN, finalnl : BOOLEAN,
     blank : BOOLEAN]
PemCases ==
    [fmt : {"pem"}, kind : {"pub-pkcs8", "pub-pkcs1", "priv-pkcs8", "priv-pkcs1", "priv-openssh"},
     eol : {"lf", "crlf"}, width : {64, 76, 48, 0}, lead : BOOLEAN, trail : BOOLEAN,
     trailws : BOOLEAN, finalnl : BOOLEAN]
OsshCases ==
    [fmt : {"openssh"}, sep : {"space", "spaces", "tab", "mixed"},
     comment : {"none", "plain", "spaces"}, opts : BOOLEAN, leadws : BOOLEAN,
     trailws : BOOLEAN, eol : {"lf", "crlf"}, finalnl : BOOLEAN]
LayoutCases == RfcCases \cup PemCases \cup OsshCases

LinesOf(k, h) == IF k.hdrs[h] = "C" THEN k.nl ELSE k.onl
\* all physical lines <<h, j>> of header h, in order
AllLines(k, h) == [j \in 1..LinesOf(k, h) |-> <<h, j>>]

LayoutInitSt == [h |-> 1, j |-> 1, acc |-> <<>>, comment |-> <<>>]

LayoutStep(k, s) ==      \* one physical header line of an RFC 4716 file
    LET n == LinesOf(k, s.h)
        id == <<s.h, s.j>>
    IN IF s.j < n
       THEN \* continuation line: keep accumulating
            [s EXCEPT !.j = s.j + 1,
                      !.acc = IF Variant = "replace_on_continue" THEN <<id>>
                              ELSE Append(s.acc, id)]
       ELSE LET full == Append(s.acc, id) IN
            [s EXCEPT !.h = s.h + 1, !.j = 1, !.acc = <<>>,
                      !.comment = IF k.hdrs[s.h] = "C" THEN full ELSE s.comment]

LayoutDone(k, s) == k.fmt # "rfc4716" \/ s.h > Len(k.hdrs)

\* the comment is made of every physical line of the Comment header
UnfoldOK ==
    (Part = "layout" /\ pc = "done" /\ c.fmt = "rfc4716") =>
        LET cs == {h \in DOMAIN c.hdrs : c.hdrs[h] = "C"} IN
        IF cs = {} THEN st.comment = <<>>
        ELSE st.comment = AllLines(c, CHOOSE h \in cs : TRUE)

-----------------------------------------------------------------------------
(* Part "keylist": loading an ordered LIST of keys (load_keypairs and the   *)
(* client_keys= option; load_public_keys / load_certificates).  The loader  *)
(* walks the entries in order; for an encrypted key file with a .pub or     *)
(* -cert.pub sibling and a CALLABLE passphrase the decryption is deferred   *)
(* until the first sign() and remembered in a local (`enc').  Rule: what    *)
(* comes out for entry i is a function of entry i ALONE.                    *)

KLKinds == {"path", "path_pub", "path_cert", "enc", "enc_pub", "enc_cert", "bytes",
            "encbytes", "obj", "tuple", "pathtuple", "pair"}
PubKinds2 == {"ppath", "pbytes", "pobj"}
CertKinds2 == {"cpath", "cbytes", "cobj"}
\* passphrase argument: none, the right string, a wrong string, a callable
\* returning the right / a wrong passphrase
KLModes == {"none", "string", "wrong", "callable", "callable_wrong"}

KLCases ==
    [api : {"keypairs"}, entries : SeqsUpTo(KLKinds, MaxBlocks) \ {<<>>}, mode : KLModes]
      \cup
    [api : {"public"}, entries : SeqsUpTo(PubKinds2, MaxBlocks) \ {<<>>}, mode : {"none"}]
      \cup
    [api : {"certs"}, entries : SeqsUpTo(CertKinds2, MaxBlocks) \ {<<>>}, mode : {"none"}]

KLEnc(k)      == k \in {"enc", "enc_pub", "enc_cert", "encbytes"}
KLHasCert(k)  == k \in {"path_cert", "enc_cert", "tuple", "pathtuple"} \/ k \in CertKinds2
\* decryption deferred to the first sign()
KLDeferred(k, m) == m \in {"callable", "callable_wrong"} /\ k \in {"enc_pub", "enc_cert"}
\* loading the entry fails (KeyImportError): no / wrong passphrase needed now
KLFails(k, m) == KLEnc(k) /\ ~KLDeferred(k, m) /\ m \in {"none", "wrong", "callable_wrong"}

KLPairs(i, k, pend) ==
    IF KLHasCert(k) /\ k \notin CertKinds2
    THEN <<[e |-> i, cert |-> TRUE, pend |-> pend], [e |-> i, cert |-> FALSE, pend |-> pend]>>
    ELSE <<[e |-> i, cert |-> KLHasCert(k), pend |-> pend]>>

\* declarative: every entry on its own
RECURSIVE KLExpect(_, _)
KLExpect(k, i) ==
    IF i > Len(k.entries) THEN [err |-> 0, out |-> <<>>]
    ELSE IF KLFails(k.entries[i], k.mode) THEN [err |-> i, out |-> <<>>]
    ELSE LET rest == KLExpect(k, i + 1)
             mine == KLPairs(i, k.entries[i],
                             IF KLDeferred(k.entries[i], k.mode) THEN i ELSE 0)
         IN IF rest.err # 0 THEN rest ELSE [err |-> 0, out |-> mine \o rest.out]

KLInitSt == [i |-> 1, enc |-> 0, out |-> <<>>, err |-> 0]

KLStep(k, s) ==         \* one iteration of `for key_to_load in keys_to_load'
    LET kind == k.entries[s.i]
        enc0 == IF Variant = "CarryEncKey" THEN s.enc ELSE 0   \* the local is reset per entry
        enc1 == IF KLDeferred(kind, k.mode) THEN s.i ELSE enc0
    IN IF KLFails(kind, k.mode)
       THEN [s EXCEPT !.err = s.i, !.i = Len(k.entries) + 1]
       ELSE [s EXCEPT !.i = s.i + 1, !.enc = enc1,
                      \* an SSHKeyPair entry is passed through untouched
                      !.out = s.out \o KLPairs(s.i, kind, IF kind = "pair" THEN 0 ELSE enc1)]

KLDone(k, s) == s.i > Len(k.entries)

\* the loader's output is the entry-by-entry expectation
ListEquiv ==
    (Part = "keylist" /\ pc = "done") =>
        LET e == KLExpect(c, 1) IN
        st.err = e.err /\ (e.err = 0 => st.out = e.out)
\* a pair never waits for the decryption of ANOTHER entry's file
Independence ==
    Part = "keylist" => \A n \in DOMAIN st.out : st.out[n].pend \in {0, st.out[n].e}

-----------------------------------------------------------------------------
(* Part "encoding": the encoding CHOICES a foreign writer may legally make  *)
(* for an encrypted / OpenSSH private key, as a decision table.  Class of a *)
(* case: "legal" (RFC 8018 / RFC 7292 / RFC 1421 / PROTOCOL.key: must       *)
(* import to the same key), "illegal" (must be refused), "tolerated" (not   *)
(* legal by the letter, but the reference readers accept it: refusing or    *)
(* importing the same key are both fine).  The PBKDF2 parameter block is    *)
(*   SEQUENCE { salt, iterationCount, keyLength OPTIONAL, prf DEFAULT sha1 }*)
(* and the decoder must read the two optional fields independently.         *)

EncCiphers == {"aes128-cbc", "aes192-cbc", "aes256-cbc", "des-ede3-cbc"}
Pbes2Base ==
    {k \in [scheme : {"pbes2"}, cipher : EncCiphers, keylen : {"absent", "right", "wrong"},
            prf : {"absent", "sha1", "sha256", "sha512"}, null : BOOLEAN,
            salt : {1, 8, 16, 32}, iter : {"1", "2048"}, ber : {"der"}] :
        k.prf = "absent" => k.null}
Pbes2Large ==
    {k \in [scheme : {"pbes2"}, cipher : EncCiphers, keylen : {"absent", "right"},
            prf : {"absent", "sha1", "sha256", "sha512"}, null : {TRUE},
            salt : {8}, iter : {"large"}, ber : {"der"}] : TRUE}
Pbes2Ber ==
    [scheme : {"pbes2"}, cipher : {"aes128-cbc", "des-ede3-cbc"}, keylen : {"absent", "right"},
     prf : {"absent", "sha256"}, null : {TRUE}, salt : {8}, iter : {"1"},
     ber : {"longform", "indefinite"}]
Pbes1Cases ==
    [scheme : {"pbes1"}, alg : {"md5-des", "sha1-des", "p12-3des", "p12-2des", "p12-rc4-128",
                                "p12-rc4-40"},
     salt : {1, 8, 16}, iter : {"1", "2048", "large"}]
DekCases ==
    [scheme : {"dek"}, cipher : {"AES-128-CBC", "AES-192-CBC", "AES-256-CBC", "DES-EDE3-CBC",
                                 "DES-CBC", "BOGUS-CBC"},
     hexcase : {"upper", "lower"}, ivlen : {"ok", "short", "long"},
     namecase : {"upper", "lower"}]
OsshKeyCases ==
    [scheme : {"openssh"}, kt : {"ed25519", "ec256"}, check : {"equal", "differ"},
     pad : {"seq", "zeros", "long", "misaligned"}, comment : {"empty", "utf8", "long"},
     nkeys : {1, 2}]
\* EC private keys: the public key ([1] publicKey BIT STRING) is OPTIONAL in
\* SEC1 / RFC 5915, also inside PKCS#8; parameters are optional inside PKCS#8
EcPrivCases ==
    {k \in [scheme : {"ecpriv"}, kt : {"ec256", "ec384", "ec521"},
            container : {"sec1", "pkcs8"}, pub : {"present", "compressed", "absent"},
            params : {"present", "absent"}] :
        k.container = "sec1" => k.params = "present"}
\* EC PUBLIC keys whose point is written compressed (SubjectPublicKeyInfo,
\* OpenSSH blob, inside a certificate): RFC 5656 3.1 - may be refused, but
\* if accepted the key is the same key: same (uncompressed) public_data
EcPubCases ==
    [scheme : {"ecpub"}, kt : {"ec256", "ec384", "ec521"},
     container : {"spki", "openssh", "cert"}, point : {"uncompressed", "compressed"}]
\* PKCS#8 envelope shapes (RFC 5208 / RFC 5958): version 0 or 1, optional
\* [0] attributes, optional [1] publicKey, clear or PBES2-encrypted
P8EnvCases ==
    [scheme : {"p8env"}, kt : PrivKts,
     shape : {"v0", "v0attr", "v1pub", "v1attrpub"}, enc : {"clear", "pbes2"}]
EncCases == Pbes2Base \cup Pbes2Large \cup Pbes2Ber \cup Pbes1Cases \cup DekCases
              \cup OsshKeyCases \cup EcPrivCases \cup EcPubCases \cup P8EnvCases

EncClass(k) ==
    CASE k.scheme = "pbes2" ->
            IF k.ber = "indefinite" \/ k.keylen = "wrong" THEN "illegal"
            ELSE IF k.ber = "longform" \/ ~k.null THEN "tolerated"
            ELSE "legal"
      [] k.scheme = "pbes1" ->
            \* PBKDF1 takes an 8-octet salt (RFC 8018 A.1); PKCS#12 any
            IF k.alg \in {"md5-des", "sha1-des"} /\ k.salt # 8 THEN "tolerated" ELSE "legal"
      [] k.scheme = "dek" ->
            IF k.cipher = "BOGUS-CBC" \/ k.ivlen = "short" THEN "illegal"
            ELSE IF k.ivlen = "long" \/ k.namecase = "lower" THEN "tolerated"
            ELSE "legal"          \* hex digits of either case
      [] k.scheme = "openssh" ->
            IF k.check = "differ" \/ k.nkeys # 1 \/ k.pad = "zeros" THEN "illegal"
            ELSE IF k.pad \in {"long", "misaligned"} THEN "tolerated"
            ELSE "legal"
      [] k.scheme = "ecpriv" -> "legal"     \* the public point is a function of d
      [] k.scheme = "ecpub" -> IF k.point = "compressed" THEN "tolerated" ELSE "legal"
      [] k.scheme = "p8env" -> "legal"

\* PBKDF2: the hash the key was derived with / the hash the decoder uses
TrueHash(k) == IF k.prf = "absent" THEN "sha1" ELSE k.prf
DecoderHash(k) ==
    IF k.prf = "absent" THEN "sha1"
    ELSE IF Variant = "PrfIgnoredWithKeyLength" /\ k.keylen # "absent" THEN "sha1"
    ELSE k.prf

\* what the decoder does: "ok" (same key) or "KeyImportError"
EncOutcome(k) ==
    CASE k.scheme = "pbes2" ->
            IF k.ber = "indefinite" \/ ~k.null THEN "KeyImportError"
            ELSE IF DecoderHash(k) # TrueHash(k) THEN "KeyImportError"
            ELSE "ok"             \* a contradicting keyLength / long-form length is read as written
      [] k.scheme = "pbes1" -> "ok"
      [] k.scheme = "dek" ->
            IF k.cipher = "BOGUS-CBC" \/ k.namecase = "lower" \/ k.ivlen # "ok"
            THEN "KeyImportError" ELSE "ok"
      [] k.scheme = "openssh" ->
            IF k.check = "differ" \/ k.nkeys # 1 \/ k.pad = "zeros" THEN "KeyImportError" ELSE "ok"
      [] k.scheme = "ecpriv" -> "ok"
      [] k.scheme = "ecpub" -> "ok"
      [] k.scheme = "p8env" -> IF Variant = "StrictEnvelope" /\ k.shape # "v0"
                               THEN "KeyImportError" ELSE "ok"

\* every legal encoding imports; nothing illegal by structure is imported
EncSound ==
    Part = "encoding" =>
        /\ (EncClass(c) = "legal" => EncOutcome(c) = "ok")
        /\ ((c.scheme = "openssh" /\ EncClass(c) = "illegal") => EncOutcome(c) = "KeyImportError")
        /\ ((c.scheme = "pbes2" /\ c.ber = "indefinite") => EncOutcome(c) = "KeyImportError")

-----------------------------------------------------------------------------
(* Part "passval": the passphrase VALUE as a dimension of the private        *)
(* export / import round trip.  Rule: passphrase None <=> the file is         *)
(* unencrypted; any other value - including the empty string - <=> the file   *)
(* is encrypted under exactly that value.                                     *)

PassVals == {"none", "empty_str", "empty_bytes", "one", "nonascii", "highbytes", "long",
             "str", "bytes_same"}
\* the passphrase offered at import: the same object, None, another text,
\* the same text in the other spelling (str <-> bytes, UTF-8)
ImpVals == {"same", "none", "other", "other_spelling"}

PvEncs ==
    [fmt : {"pkcs1-pem"}, cipher : Pkcs1Ciphers, hash : {"sha256"}, pbe : {2}]
      \cup [fmt : {"pkcs8-pem", "pkcs8-der"}, cipher : P2Ciphers, hash : {"sha256"}, pbe : {2}]
      \cup {[fmt |-> f, cipher |-> p[1], hash |-> p[2], pbe |-> 1] :
              f \in {"pkcs8-pem", "pkcs8-der"}, p \in P1Pairs}
      \cup [fmt : {"openssh", "pkcs1-der"}, cipher : {"aes256-cbc"}, hash : {"sha256"}, pbe : {2}]

PvCases == [enc : PvEncs, pv : PassVals, ipv : ImpVals]

\* PKCS#12-style schemes take the passphrase as a BMPString: a str is
\* converted, bytes are used as given, so the two spellings differ there
P12Family(e) == e.pbe = 1 /\ e.cipher \in {"des2-cbc", "des3-cbc", "rc4-40", "rc4-128"}
HasOtherSpelling(v) == v \in {"empty_str", "empty_bytes", "one", "nonascii", "long", "str",
                              "bytes_same"}

PvExport(k) ==
    IF k.pv = "none" THEN "ok"
    ELSE IF Variant = "EmptyMeansNone" /\ k.pv \in {"empty_str", "empty_bytes"} THEN "ok"
    ELSE IF k.enc.fmt = "pkcs1-der" THEN "KeyExportError"
    ELSE IF k.enc.fmt = "openssh" /\ ~Bcrypt THEN "KeyExportError"
    ELSE "ok"
PvEncrypted(k) ==       \* is the written file encrypted?
    IF Variant = "EmptyMeansNone" THEN k.pv \notin {"none", "empty_str", "empty_bytes"}
    ELSE k.pv # "none"
PvImport(k) ==
    IF ~PvEncrypted(k) THEN "ok"
    ELSE CASE k.ipv = "same" -> "ok"
           [] k.ipv = "other_spelling" ->
                 IF HasOtherSpelling(k.pv) /\ (~P12Family(k.enc) \/ k.pv \in {"empty_str", "empty_bytes"})
                 THEN "ok" ELSE "KeyImportError"
           [] OTHER -> "KeyImportError"

\* a passphrase was given <=> an encrypted file (or an error), never a clear key
PassSound ==
    (Part = "passval" /\ pc = "done") =>
        /\ (c.pv # "none" /\ st.export = "ok") => st.encrypted
        /\ (c.pv = "none") => (st.export = "ok" /\ ~st.encrypted)
        /\ (st.export = "ok" /\ c.pv # "none" /\ c.ipv \in {"none", "other"})
              => st.import = "KeyImportError"
        /\ (c.enc.fmt = "pkcs1-der" /\ c.pv # "none") => st.export = "KeyExportError"

-----------------------------------------------------------------------------
Cases == CASE Part = "priv"     -> PrivCases
           [] Part = "pub"      -> PubCases
           [] Part = "scanpriv" -> ScanPrivCases
           [] Part = "scanpub"  -> ScanPubCases
           [] Part = "chain"    -> ChainCases
           [] Part = "layout"   -> LayoutCases
           [] Part = "keylist"  -> KLCases
           [] Part = "encoding" -> EncCases
           [] Part = "passval"  -> PvCases

Init ==
    /\ c \in Cases
    /\ pc = "run"
    /\ res = "pending"
    /\ st = CASE Part \in {"scanpriv", "scanpub"} -> ScanInit
              [] Part = "chain" -> ChainInitSt
              [] Part = "layout" -> LayoutInitSt
              [] Part = "keylist" -> KLInitSt
              [] Part = "encoding" -> [class |-> "pending", outcome |-> "pending"]
              [] Part = "passval" -> [export |-> "pending", encrypted |-> FALSE,
                                      import |-> "pending"]
              [] OTHER -> [export |-> "pending", import |-> "pending"]

TableStep ==
    IF st.export = "pending"
    THEN LET e == IF Part = "priv" THEN ExportPrivOutcome(c) ELSE ExportPubOutcome(c) IN
         /\ st' = [st EXCEPT !.export = e]
         /\ IF e = "ok" THEN pc' = "run" /\ res' = res
            ELSE pc' = "done" /\ res' = e
    ELSE LET i == IF Part = "priv" THEN ImportPrivOutcome(c) ELSE "ok" IN
         /\ st' = [st EXCEPT !.import = i]
         /\ pc' = "done" /\ res' = i

ScanStepAct ==
    IF st.pos >= Len(c.blocks)
    THEN /\ pc' = "done" /\ res' = (IF st.err THEN "KeyImportError" ELSE "ok") /\ st' = st
    ELSE /\ st' = ScanStep(c, st) /\ pc' = "run" /\ res' = res

ChainStepAct ==
    \/ \E t \in ChainNextSts(c, st) : st' = t /\ pc' = "run" /\ res' = res
    \/ /\ ChainNextSts(c, st) = {} /\ pc' = "done" /\ res' = "ok" /\ st' = st

PvStepAct ==
    /\ st' = [export |-> PvExport(c),
              encrypted |-> PvExport(c) = "ok" /\ PvEncrypted(c),
              import |-> IF PvExport(c) = "ok" THEN PvImport(c) ELSE "none"]
    /\ pc' = "done" /\ res' = PvExport(c)

EncStepAct ==
    /\ st' = [class |-> EncClass(c), outcome |-> EncOutcome(c)]
    /\ pc' = "done" /\ res' = EncOutcome(c)

KLStepAct ==
    IF KLDone(c, st)
    THEN /\ pc' = "done" /\ res' = (IF st.err = 0 THEN "ok" ELSE "KeyImportError") /\ st' = st
    ELSE /\ st' = KLStep(c, st) /\ pc' = "run" /\ res' = res

LayoutStepAct ==
    IF LayoutDone(c, st)
    THEN /\ pc' = "done" /\ res' = "ok" /\ st' = st
    ELSE /\ st' = LayoutStep(c, st) /\ pc' = "run" /\ res' = res

Next ==
    /\ pc = "run" /\ UNCHANGED c
    /\ CASE Part \in {"priv", "pub"} -> TableStep
         [] Part \in {"scanpriv", "scanpub"} -> ScanStepAct
         [] Part = "chain" -> ChainStepAct
         [] Part = "layout" -> LayoutStepAct
         [] Part = "keylist" -> KLStepAct
         [] Part = "encoding" -> EncStepAct
         [] Part = "passval" -> PvStepAct

Spec == Init /\ [][Next]_vars

-----------------------------------------------------------------------------
(* Properties *)

TableEquiv ==
    (Part \in {"priv", "pub"} /\ st.export # "pending") =>
        IF Part = "priv" THEN (st.export = "ok") = Legal(c)
        ELSE (st.export = "ok") = PubLegal(c)

\* export never reports an encryption problem when no encryption was asked for,
\* and a format that cannot be encrypted never silently writes a clear key
NoSilentClear ==
    (Part = "priv" /\ st.export = "ok" /\ c.pass) => c.fmt # "pkcs1-der"
NoEncErrWithoutPass ==
    (Part = "priv" /\ ~c.pass) => st.export # "KeyEncryptionError"

\* round trip: right (or unnecessary) passphrase -> key back; otherwise refused
RoundTrip ==
    (Part = "priv" /\ pc = "done" /\ st.export = "ok") =>
        (res = "ok") = (~c.pass \/ c.ipass = "right")

ScanEquiv ==
    (Part \in {"scanpriv", "scanpub"} /\ pc = "done") =>
        LET e == IF Part = "scanpriv" THEN ExpectPriv(c) ELSE ExpectPub(c) IN
        /\ st.err = e.err
        /\ (~e.err => st.keys = e.keys)

\* every key block of a well-formed file is returned (in order)
ScanComplete ==
    (Part = "scanpriv" /\ pc = "done" /\ ~st.err) =>
        st.keys = SelectSeq([i \in DOMAIN c.blocks |-> i], LAMBDA i : IsPrivKey(c.blocks[i]))

Progress == [][(Part \in {"scanpriv", "scanpub"} /\ pc = "run" /\ pc' = "run")
                  => st'.pos > st.pos]_vars

ChainInv ==
    Part = "chain" =>
        /\ st.id = 1
        /\ \A i \in DOMAIN st.hist : \A j \in DOMAIN st.hist :
              (i < j /\ st.hist[i][4] = FALSE) => st.hist[j][4] = FALSE
        \* the comment is still the original one only if every format on the way carries it
        /\ (st.cmt = "orig" =>
              \A i \in DOMAIN st.hist :
                 (st.hist[i][1] = "import_private" => PrivCarriesComment(st.hist[i][2]))
                 /\ (st.hist[i][1] = "import_public" => PubCarriesComment(st.hist[i][2]))
                 /\ st.hist[i][1] # "import_public_from_private")
        /\ (c.cmt = "none" => st.cmt \in {"orig", "none"})

TypeOK == pc \in {"run", "done"} /\ (res = "pending") = (pc = "run")

EmitRows ==
    (Emit /\ pc = "done") =>
        PrintT(ToString(CASE Part \in {"priv", "pub"} -> <<c, st.export, st.import>>
                          [] Part \in {"scanpriv", "scanpub"} -> <<c, st.err, st.keys>>
                          [] Part = "chain" -> <<c, st.hist, st.priv>>
                          [] Part = "layout" -> <<c, res, st.comment>>
                          [] Part = "keylist" -> <<c, st.err, st.out>>
                          [] Part = "encoding" -> <<c, st.class, st.outcome>>
                          [] Part = "passval" -> <<c, st.export,
                                                   <<st.encrypted, st.import>> >>))
=============================================================================
