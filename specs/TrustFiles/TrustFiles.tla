----------------------------- MODULE TrustFiles -----------------------------
(***************************************************************************)
(* Lookup rules of the two OpenSSH trust files as asyncssh implements them *)
(*   known_hosts      : known_hosts.py  SSHKnownHosts.load/_match/match,   *)
(*                      match_known_hosts                                   *)
(*   authorized_keys  : auth_keys.py    _SSHAuthorizedKeyEntry,             *)
(*                      SSHAuthorizedKeys.load/validate,                    *)
(*                      misc.py OptionsParser (the option tokenizer)        *)
(*   patterns         : pattern.py      Wildcard*/CIDR/HostPatternList      *)
(*                                                                         *)
(* The module is a decision table: every case is an INITIAL STATE (there   *)
(* are no steps); the invariants state the properties of the rule itself   *)
(* and, when Emit = TRUE, print one line per case (case + predicted        *)
(* result) which the harness materialises with real keys and runs through  *)
(* the real API.  Strings are tuples of one-character strings.             *)
(***************************************************************************)
EXTENDS Integers, Sequences, FiniteSets, TLC

CONSTANTS
    Mode,        \* "pat" | "kh" | "tok" | "ak"
    Emit,        \* TRUE: print one line per case
    MaxPat,      \* pat: longest pattern text
    MaxSubj,     \* pat: longest subject (host name)
    MaxItems,    \* pat: patterns per host field (1 or 2)
    Upper,       \* pat: TRUE adds an upper-case letter to both alphabets
    MaxLines,    \* kh : lines per file
    HFSel,       \* kh : host-field menu indices in use
    MarkSel,     \* kh : marker indices in use
    KeySel,      \* kh : key indices in use
    QSel,        \* kh : lookup triples (indices into QMenu) in use
    MaxTok,      \* tok: longest option string
    MaxEntries,  \* ak : entries per file
    MaxOpts,     \* ak : options per entry
    OptSel,      \* ak : option menu indices in use
    SampleMod,   \* only cases with Hash % SampleMod = SampleRem are kept
    SampleRem,
    NegIgnored,  \* sensitivity: a negated match does not exclude (WRONG rule)
    NoHostLiteralCidr, \* sensitivity: an IP-literal host is not an address for CIDR patterns (WRONG)
    FallbackAlways, \* sensitivity: plain-name lookup merged in always (WRONG)
    IndexAliased, \* sensitivity: a lookup appends what it found to the stored index entry (WRONG)
    MaxHist,      \* hist / akhist: lookups made one after the other on ONE loaded object
    DropPortRevoked,\* sensitivity: the fallback forgets [host]:port revocations (pre-repair rule)
    AnyFromSuffices,\* sensitivity: one matching from= is enough (WRONG)
    CaseFold     \* TRUE = OpenSSH (folds case); FALSE = what asyncssh does

-----------------------------------------------------------------------------
(* generic helpers *)
Strs(A, lo, hi) == UNION {[1..n -> A] : n \in lo..hi}

RECURSIVE Sorted(_)
Sorted(S) == IF S = {} THEN <<>>
             ELSE LET m == CHOOSE x \in S : \A y \in S : x <= y
                  IN <<m>> \o Sorted(S \ {m})
SelIdx(P(_), n) == Sorted({i \in 1..n : P(i)})

RECURSIVE Join(_, _)
Join(ss, sep) == IF ss = <<>> THEN <<>>
                 ELSE IF Len(ss) = 1 THEN ss[1]
                 ELSE ss[1] \o sep \o Join(Tail(ss), sep)

RECURSIVE StripL(_)
StripL(s) == IF s # <<>> /\ Head(s) = " " THEN StripL(Tail(s)) ELSE s
RECURSIVE StripR(_)
StripR(s) == IF s # <<>> /\ s[Len(s)] = " "
             THEN StripR(SubSeq(s, 1, Len(s) - 1)) ELSE s
Strip(s) == StripR(StripL(s))

Digit(n) == <<"0", "1", "2", "3", "4", "5", "6", "7", "8", "9">>[n + 1]
Fold(ch) == IF CaseFold /\ ch = "A" THEN "a" ELSE ch

-----------------------------------------------------------------------------
(* 1. wildcard, CIDR and pattern lists (pattern.py)                          *)

(* fnmatch with '[' and ']' made literal: only '*' and '?' are special *)
RECURSIVE Wild(_, _)
Wild(p, s) ==
    IF p = <<>> THEN s = <<>>
    ELSE IF Head(p) = "*"
         THEN Wild(Tail(p), s) \/ (s # <<>> /\ Wild(p, Tail(s)))
    ELSE /\ s # <<>>
         /\ (Head(p) = "?" \/ Fold(Head(p)) = Fold(Head(s)))
         /\ Wild(Tail(p), Tail(s))

(* declarative reference: s is cut into Len(p) consecutive segments *)
WildRef(p, s) ==
    \E cut \in [0..Len(p) -> 0..Len(s)] :
        /\ cut[0] = 0 /\ cut[Len(p)] = Len(s)
        /\ \A i \in 1..Len(p) :
              /\ cut[i-1] <= cut[i]
              /\ \/ p[i] = "*"
                 \/ /\ cut[i] = cut[i-1] + 1
                    /\ (p[i] = "?" \/ Fold(p[i]) = Fold(s[cut[i]]))

(* 3-bit addresses 10.0.0.0 .. 10.0.0.7; prefix /29+len, len in 0..3 *)
Pow2(n) == IF n = 0 THEN 1 ELSE IF n = 1 THEN 2 ELSE IF n = 2 THEN 4 ELSE 8
Canon(net, len) == net % Pow2(3 - len) = 0
InNet(ip, net, len) == ip \div Pow2(3 - len) = net \div Pow2(3 - len)
AddrStr(n) == <<"1", "0", ".", "0", ".", "0", ".", Digit(n)>>
(* and the same eight addresses in IPv6, fd00::0 .. fd00::7, prefix /125+len.  An  *)
(* address is a number: -1 none, 0..7 IPv4, 10..17 IPv6                            *)
V6Str(n) == <<"f", "d", "0", "0", ":", ":", Digit(n)>>
AddrStrG(x) == IF x >= 10 THEN V6Str(x - 10) ELSE AddrStr(x)
Bracket(s, port) == <<"[">> \o s \o <<"]", ":", Digit(port)>>

(* a pattern-list item.  k = "w": wildcard/literal text t;  k = "c": address *)
(* net/29+len (bare: written without the /32 suffix)                        *)
W(neg, t)            == [neg |-> neg, k |-> "w", t |-> t, net |-> 0, len |-> 0, bare |-> FALSE, fam |-> 4]
C(neg, net, len)     == [neg |-> neg, k |-> "c", t |-> <<>>, net |-> net, len |-> len, bare |-> FALSE, fam |-> 4]
B(neg, net)          == [neg |-> neg, k |-> "c", t |-> <<>>, net |-> net, len |-> 3, bare |-> TRUE, fam |-> 4]
C6(neg, net, len)    == [C(neg, net, len) EXCEPT !.fam = 6]
B6(neg, net)         == [B(neg, net) EXCEPT !.fam = 6]

ItemText(it) ==            \* without the '!'
    IF it.k = "w" THEN it.t
    ELSE IF it.bare THEN (IF it.fam = 6 THEN V6Str(it.net) ELSE AddrStr(it.net))
    ELSE IF it.fam = 6 THEN V6Str(it.net) \o <<"/", "1", "2", Digit(5 + it.len)>>
    ELSE AddrStr(it.net) \o <<"/">> \o
         (IF it.len = 0 THEN <<"2", "9">> ELSE <<"3", Digit(it.len - 1)>>)
ItemChars(it) == (IF it.neg THEN <<"!">> ELSE <<>>) \o ItemText(it)
ListChars(pl) == Join([i \in 1..Len(pl) |-> ItemChars(pl[i])], <<",">>)

(* HostPatternList item: CIDR if the text is a well-formed network, else wildcard on *)
(* the host string or the address string                                             *)
ItemMatch(it, hs, as, ip) ==
    IF it.k = "c"
    THEN /\ Canon(it.net, it.len) /\ ip >= 0
         /\ IF it.fam = 6 THEN ip >= 10 /\ InNet(ip - 10, it.net, it.len)
            ELSE ip < 10 /\ InNet(ip, it.net, it.len)
    ELSE (hs # <<>> /\ Wild(it.t, hs)) \/ (as # <<>> /\ Wild(it.t, as))

PosMatch(pl, hs, as, ip) == \E i \in 1..Len(pl) : ~pl[i].neg /\ ItemMatch(pl[i], hs, as, ip)
NegMatch(pl, hs, as, ip) == \E i \in 1..Len(pl) : pl[i].neg /\ ItemMatch(pl[i], hs, as, ip)
ListMatch(pl, hs, as, ip) ==
    PosMatch(pl, hs, as, ip) /\ (NegIgnored \/ ~NegMatch(pl, hs, as, ip))

(* WildcardPatternList (principals, Host/Match in config) *)
NameListMatch(pl, s) ==
    /\ \E i \in 1..Len(pl) : ~pl[i].neg /\ Wild(pl[i].t, s)
    /\ (NegIgnored \/ ~\E i \in 1..Len(pl) : pl[i].neg /\ Wild(pl[i].t, s))

-----------------------------------------------------------------------------
(* 2. known_hosts                                                            *)

(* host fields.  kind "l": comma list of items;  kind "h": one hashed name  *)
L(items)    == [kind |-> "l", items |-> items, name |-> <<>>, salt |-> 0]
H(name, sl) == [kind |-> "h", items |-> <<>>, name |-> name, salt |-> sl]

a == <<"a">>
b == <<"b">>
HFMenu == <<
    L(<<W(FALSE, a)>>),                                   \*  1  a
    L(<<W(FALSE, a), W(FALSE, b)>>),                      \*  2  a,b
    L(<<W(FALSE, <<"a", "*">>)>>),                        \*  3  a*
    L(<<W(FALSE, <<"*">>), W(TRUE, a)>>),                 \*  4  *,!a
    L(<<W(TRUE, b), W(FALSE, <<"?">>)>>),                 \*  5  !b,?
    H(a, 1),                                              \*  6  |1|s1|HMAC(a)
    H(Bracket(a, 2), 2),                                  \*  7  |1|s2|HMAC([a]:2)
    L(<<W(FALSE, Bracket(a, 2))>>),                       \*  8  [a]:2
    L(<<W(FALSE, Bracket(<<"*">>, 2))>>),                 \*  9  [*]:2
    L(<<B(FALSE, 4)>>),                                   \* 10  10.0.0.4
    L(<<C(FALSE, 4, 1)>>),                                \* 11  10.0.0.4/30
    L(<<W(FALSE, a), B(FALSE, 5)>>),                      \* 12  a,10.0.0.5
    L(<<W(FALSE, Bracket(AddrStr(4), 2))>>),              \* 13  [10.0.0.4]:2
    L(<<C(FALSE, 0, 0), B(TRUE, 4)>>),                    \* 14  10.0.0.0/29,!10.0.0.4
    L(<<C(FALSE, 5, 1)>>),                                \* 15  10.0.0.5/30 (host bits set)
    L(<<W(FALSE, Bracket(a, 2)), W(FALSE, a)>>),          \* 16  [a]:2,a
    H(AddrStr(4), 1),                                     \* 17  |1|s1|HMAC(10.0.0.4)
    L(<<W(FALSE, <<"[", "a", "]", ":", "?">>), W(TRUE, Bracket(a, 3))>>), \* 18 [a]:?,![a]:3
    L(<<W(FALSE, <<"1", "0", ".", "0", ".", "0", ".", "?">>)>>),          \* 19 10.0.0.?  (wildcard on the address)
    L(<<W(FALSE, a), W(TRUE, <<"*", ".", "5">>)>>),                       \* 20 a,!*.5    (negated wildcard on the address)
    L(<<B6(FALSE, 4)>>),                                                  \* 21 fd00::4
    L(<<C6(FALSE, 4, 1)>>),                                               \* 22 fd00::4/126
    L(<<W(FALSE, Bracket(V6Str(4), 2))>>),                                \* 23 [fd00::4]:2
    L(<<W(FALSE, <<"f", "d", "0", "0", ":", ":", "*">>)>>),               \* 24 fd00::*
    L(<<W(FALSE, <<"*">>), C6(TRUE, 4, 1)>>),                             \* 25 *,!fd00::4/126
    L(<<W(FALSE, <<"*">>), C(TRUE, 4, 1)>>),                              \* 26 *,!10.0.0.4/30
    H(V6Str(4), 2),                                                       \* 27 |1|s2|HMAC(fd00::4)
    L(<<C(FALSE, 0, 0), C6(FALSE, 0, 0)>>)                                \* 28 10.0.0.0/29,fd00::0/125
>>
Markers == <<"", "cert-authority", "revoked">>
Keys    == <<"k1", "k2", "D">>          \* D = a line whose key field is damaged

(* the lookup triple.  host: a name, an IPv4 / IPv6 literal, or a literal in brackets; *)
(* addr: none (tunnel, proxy command, non-IP socket), equal to the host, another one,  *)
(* of the other family; port: default (0) or not                                       *)
N(t)   == [k |-> "n",  t |-> t,    x |-> -1]
Lit(x) == [k |-> "ip", t |-> <<>>, x |-> x]
Br(x)  == [k |-> "br", t |-> <<>>, x |-> x]
HostChars(h) == IF h.k = "n" THEN h.t
                ELSE IF h.k = "ip" THEN AddrStrG(h.x)
                ELSE <<"[">> \o AddrStrG(h.x) \o <<"]">>
QMenu == <<
    <<N(a), -1, 0>>, <<N(b), -1, 0>>, <<N(a), 4, 0>>, <<N(b), 4, 0>>, <<N(a), 5, 0>>, <<N(b), 5, 0>>,
    <<N(a), -1, 2>>, <<N(b), -1, 2>>, <<N(a), 4, 2>>, <<N(b), 4, 2>>, <<N(a), 5, 2>>, <<N(a), 4, 3>>,
    <<Lit(4), -1, 0>>, <<Lit(4), 4, 0>>, <<Lit(4), 5, 0>>, <<Lit(4), -1, 2>>, <<Lit(4), 4, 2>>,      \* 13..17
    <<Lit(5), -1, 0>>, <<Lit(1), -1, 0>>,                                                            \* 18, 19
    <<Lit(14), -1, 0>>, <<Lit(14), 14, 0>>, <<Lit(14), 15, 0>>, <<Lit(14), -1, 2>>, <<Lit(14), 14, 2>>, \* 20..24
    <<Lit(4), 14, 0>>, <<Lit(14), 4, 0>>, <<Lit(11), -1, 0>>,                                        \* 25..27
    <<N(a), 14, 0>>, <<N(a), 14, 2>>, <<N(b), 15, 0>>,                                               \* 28..30
    <<Br(4), -1, 0>>, <<Br(14), -1, 0>>, <<Br(4), 4, 2>>                                             \* 31..33
>>
(* the address CIDR patterns are applied to: the peer address, or else the host itself *)
(* when it is an IP literal                                                             *)
IpOf(q) == IF q[2] >= 0 THEN q[2]
           ELSE IF q[1].k = "ip" /\ ~NoHostLiteralCidr THEN q[1].x
           ELSE -1

HasPatChar(it) ==
    \/ it.neg
    \/ (it.k = "c" /\ ~it.bare)
    \/ (it.k = "w" /\ \E i \in 1..Len(it.t) : it.t[i] \in {"*", "?", "|", "/", "!"})
IsPattern(hf) == hf.kind = "h" \/ \E i \in 1..Len(hf.items) : HasPatChar(hf.items[i])

HFChars(hf) == IF hf.kind = "h" THEN <<"|">> ELSE ListChars(hf.items)

(* strings the file is searched with *)
HostS(q, wp) == IF wp THEN Bracket(HostChars(q[1]), q[3]) ELSE HostChars(q[1])
AddrS(q, wp) == IF q[2] < 0 THEN <<>>
                ELSE IF wp THEN Bracket(AddrStrG(q[2]), q[3]) ELSE AddrStrG(q[2])

ExactHit(hf, s) ==
    /\ s # <<>> /\ ~IsPattern(hf)
    /\ \E i \in 1..Len(hf.items) : ItemText(hf.items[i]) = s
PatHit(hf, q, wp) ==
    /\ IsPattern(hf)
    /\ IF hf.kind = "h"
       THEN hf.name = HostS(q, wp) \/ hf.name = AddrS(q, wp)
       ELSE ListMatch(hf.items, HostS(q, wp), AddrS(q, wp), IpOf(q))
LineHit(hf, q, wp) ==
    ExactHit(hf, HostS(q, wp)) \/ ExactHit(hf, AddrS(q, wp)) \/ PatHit(hf, q, wp)

(* a file is a sequence of <<hf index, marker index, key index>> *)
HFOf(ln) == HFMenu[ln[1]]
(* line numbers in the order the code collects them: exact by host, exact by *)
(* address, then pattern entries                                            *)
HitSeq(file, q, wp) ==
    SelIdx(LAMBDA i : ExactHit(HFOf(file[i]), HostS(q, wp)), Len(file)) \o
    SelIdx(LAMBDA i : ExactHit(HFOf(file[i]), AddrS(q, wp)), Len(file)) \o
    SelIdx(LAMBDA i : PatHit(HFOf(file[i]), q, wp), Len(file))

KeysOf(file, hits, m) ==
    LET sel == SelectSeq(hits, LAMBDA i : Markers[file[i][2]] = m /\ Keys[file[i][3]] # "D")
    IN  [j \in 1..Len(sel) |-> Keys[file[sel[j]][3]]]

Lookup(file, q, wp) ==
    LET hits == HitSeq(file, q, wp)
    IN  [host |-> KeysOf(file, hits, ""), ca |-> KeysOf(file, hits, "cert-authority"),
         rev |-> KeysOf(file, hits, "revoked")]

Cat(r1, r2) == [host |-> r1.host \o r2.host, ca |-> r1.ca \o r2.ca, rev |-> r1.rev \o r2.rev]

(* SSHKnownHosts.match: [host]:port first, plain name only if that found no *)
(* trusted entry; what was revoked for [host]:port stays revoked            *)
Fallback(file, q, r) ==
    LET pl == Lookup(file, q, FALSE)
    IN  IF DropPortRevoked THEN pl ELSE [pl EXCEPT !.rev = pl.rev \o r.rev]
KHResult(file, q) ==
    IF q[3] = 0 THEN Lookup(file, q, FALSE)
    ELSE LET r == Lookup(file, q, TRUE)
         IN  IF FallbackAlways THEN Cat(r, Lookup(file, q, FALSE))
             ELSE IF r.host # <<>> \/ r.ca # <<>> THEN r
             ELSE Fallback(file, q, r)

Purge(file) == SelectSeq(file, LAMBDA ln : Keys[ln[3]] # "D")

(* ---- a HISTORY of lookups on one loaded object.  The object is the index built at  *)
(* load time: exact strings -> lines, and the pattern lines.  ext records what has    *)
(* been appended to index entries since (<<string, lines>>): nothing, under the rule. *)
ExactBy(file, s) == SelIdx(LAMBDA i : ExactHit(HFOf(file[i]), s), Len(file))
RECURSIVE ExtOf(_, _)
ExtOf(ext, s) == IF ext = <<>> THEN <<>>
                 ELSE (IF Head(ext)[1] = s THEN Head(ext)[2] ELSE <<>>) \o ExtOf(Tail(ext), s)
Stored(file, ext, s) == IF s = <<>> THEN <<>> ELSE ExactBy(file, s) \o ExtOf(ext, s)
ResOf(file, hits) == [host |-> KeysOf(file, hits, ""), ca |-> KeysOf(file, hits, "cert-authority"),
                      rev |-> KeysOf(file, hits, "revoked")]
LookupH(file, q, wp, ext) ==
    LET hs   == HostS(q, wp)
        base == Stored(file, ext, hs)
        add  == (IF AddrS(q, wp) = hs THEN base ELSE Stored(file, ext, AddrS(q, wp))) \o
                SelIdx(LAMBDA i : PatHit(HFOf(file[i]), q, wp), Len(file))
    IN  [r   |-> ResOf(file, base \o add),
         ext |-> IF IndexAliased /\ ExactBy(file, hs) # <<>> THEN Append(ext, <<hs, add>>) ELSE ext]
MatchH(file, q, ext) ==
    IF q[3] = 0 THEN LookupH(file, q, FALSE, ext)
    ELSE LET l1 == LookupH(file, q, TRUE, ext)
         IN  IF l1.r.host # <<>> \/ l1.r.ca # <<>> THEN l1
             ELSE LET l2 == LookupH(file, q, FALSE, l1.ext)
                  IN  [r |-> [l2.r EXCEPT !.rev = l2.r.rev \o l1.r.rev], ext |-> l2.ext]
RECURSIVE HistRun(_, _, _)
HistRun(file, qs, ext) ==      \* the results of the lookups qs, made in this order
    IF qs = <<>> THEN <<>>
    ELSE LET m == MatchH(file, QMenu[Head(qs)], ext)
         IN  <<m.r>> \o HistRun(file, Tail(qs), m.ext)

-----------------------------------------------------------------------------
(* 3. authorized_keys: the option tokenizer (misc.py OptionsParser)          *)

TokAlpha == {"x", "=", ",", "\"", "\\", " "}
KeyText  == <<"K1", " ", "K2">>      \* "ssh-ed25519 AAAA..." as two atoms

RECURSIVE Scan(_, _, _)
Scan(line, i, st) ==
    IF i > Len(line) THEN [st EXCEPT !.idx = Len(line)]      \* no break: last index
    ELSE LET ch == line[i] IN
      IF st.e THEN Scan(line, i + 1, [st EXCEPT !.opt = Append(@, ch), !.e = FALSE])
      ELSE IF ch = "\\" THEN Scan(line, i + 1, [st EXCEPT !.e = TRUE])
      ELSE IF ch = "\"" THEN Scan(line, i + 1, [st EXCEPT !.q = ~@])
      ELSE IF st.q THEN Scan(line, i + 1, [st EXCEPT !.opt = Append(@, ch)])
      ELSE IF ch = " " THEN [st EXCEPT !.idx = i]            \* break
      ELSE IF ch = "," THEN Scan(line, i + 1, [st EXCEPT !.toks = Append(@, st.opt),
                                                          !.opt = <<>>])
      ELSE Scan(line, i + 1, [st EXCEPT !.opt = Append(@, ch)])

Scan0(line) == Scan(line, 1, [q |-> FALSE, e |-> FALSE, opt |-> <<>>, toks |-> <<>>,
                              idx |-> 0])

EqPos(tok) == IF \E i \in 1..Len(tok) : tok[i] = "="
              THEN CHOOSE i \in 1..Len(tok) : tok[i] = "=" /\ \A j \in 1..(i-1) : tok[j] # "="
              ELSE 0
TokName(tok) == IF EqPos(tok) = 0 THEN tok ELSE SubSeq(tok, 1, EqPos(tok) - 1)
TokVal(tok)  == SubSeq(tok, EqPos(tok) + 1, Len(tok))

(* options as a sequence of <<name, flag?, values>>, names in order of first use; *)
(* "bad" = a valued use of a name that is currently a flag (the code crashes)     *)
RECURSIVE FoldToks(_, _, _)
FoldToks(toks, acc, bad) ==
    IF toks = <<>> THEN [opts |-> acc, bad |-> bad]
    ELSE LET t == Head(toks)
             n == TokName(t)
             at == {i \in 1..Len(acc) : acc[i][1] = n}
             k == IF at = {} THEN 0 ELSE CHOOSE i \in at : TRUE
         IN IF EqPos(t) = 0
            THEN FoldToks(Tail(toks),
                          IF k = 0 THEN Append(acc, <<n, TRUE, <<>>>>)
                          ELSE [acc EXCEPT ![k] = <<n, TRUE, <<>>>>], bad)
            ELSE IF k = 0 THEN FoldToks(Tail(toks), Append(acc, <<n, FALSE, <<TokVal(t)>>>>), bad)
            ELSE IF acc[k][2] THEN FoldToks(Tail(toks), acc, TRUE)
            ELSE FoldToks(Tail(toks), [acc EXCEPT ![k] = <<n, FALSE, Append(@[3], TokVal(t))>>], bad)

TokResult(s) ==
    LET line == Strip(s \o <<" ">> \o KeyText) IN
    IF line = KeyText THEN [out |-> "ok", opts |-> <<>>]
    ELSE LET st   == Scan0(line)
             toks == Append(st.toks, st.opt)
             rest == Strip(SubSeq(line, st.idx, Len(line)))
             f    == FoldToks(toks, <<>>, FALSE)
             err  == \/ \E i \in 1..Len(toks) : toks[i] # <<>> /\ toks[i][1] = "="
                     \/ f.bad \/ st.q \/ st.e
         IN IF err THEN [out |-> "err", opts |-> <<>>]
            ELSE IF rest # KeyText THEN [out |-> "skip", opts |-> <<>>]
            ELSE [out |-> "ok", opts |-> f.opts]

(* reference for the plain fragment: no quote, backslash or blank *)
RECURSIVE SplitComma(_, _)
SplitComma(s, cur) == IF s = <<>> THEN <<cur>>
                      ELSE IF Head(s) = "," THEN <<cur>> \o SplitComma(Tail(s), <<>>)
                      ELSE SplitComma(Tail(s), Append(cur, Head(s)))
Plain(s) == \A i \in 1..Len(s) : s[i] \notin {"\"", "\\", " "}
QuoteCount(s) == Cardinality({i \in 1..Len(s) : s[i] = "\""})

-----------------------------------------------------------------------------
(* 4. authorized_keys: option semantics and entry selection                  *)

pa == <<"p", "a">>
pb == <<"p", "b">>
qq == <<"q">>
OptMenu == <<      \* [n, pl (pattern list), v (value), w (port / env value)]
    [n |-> "from",        pl |-> <<W(FALSE, <<"a", "*">>)>>,          v |-> <<>>, w |-> <<>>],  \* 1
    [n |-> "from",        pl |-> <<W(FALSE, <<"*">>), W(TRUE, b)>>,   v |-> <<>>, w |-> <<>>],  \* 2
    [n |-> "from",        pl |-> <<C(FALSE, 4, 1)>>,                  v |-> <<>>, w |-> <<>>],  \* 3
    [n |-> "from",        pl |-> <<B(TRUE, 4), C(FALSE, 0, 0)>>,      v |-> <<>>, w |-> <<>>],  \* 4
    [n |-> "principals",  pl |-> <<W(FALSE, <<"p", "*">>)>>,          v |-> <<>>, w |-> <<>>],  \* 5
    [n |-> "principals",  pl |-> <<W(FALSE, qq), W(TRUE, pb)>>,       v |-> <<>>, w |-> <<>>],  \* 6
    [n |-> "command",     pl |-> <<>>, v |-> <<"x">>,                 w |-> <<>>],              \* 7
    [n |-> "command",     pl |-> <<>>, v |-> <<"y", " ", "z">>,       w |-> <<>>],              \* 8
    [n |-> "environment", pl |-> <<>>, v |-> <<"A">>,                 w |-> <<"1">>],           \* 9
    [n |-> "environment", pl |-> <<>>, v |-> <<"A">>,                 w |-> <<"2", "=", "3">>], \* 10
    [n |-> "environment", pl |-> <<>>, v |-> <<"B">>,                 w |-> <<"1">>],           \* 11
    [n |-> "permitopen",  pl |-> <<>>, v |-> <<"h">>,                 w |-> <<"1">>],           \* 12
    [n |-> "permitopen",  pl |-> <<>>, v |-> <<"[", "h", "]">>,       w |-> <<"*">>],           \* 13
    [n |-> "no-pty",      pl |-> <<>>, v |-> <<>>,                    w |-> <<>>],              \* 14
    [n |-> "cert-authority", pl |-> <<>>, v |-> <<>>,                 w |-> <<>>],              \* 15
    [n |-> "no-port-forwarding", pl |-> <<>>, v |-> <<>>,             w |-> <<>>],              \* 16
    [n |-> "from",        pl |-> <<W(FALSE, b), B(FALSE, 1)>>,        v |-> <<>>, w |-> <<>>],  \* 17
    [n |-> "from",        pl |-> <<W(FALSE, <<"*", ".", "4">>)>>,     v |-> <<>>, w |-> <<>>]   \* 18
>>
IsFlag(o) == o.n \in {"no-pty", "cert-authority", "no-port-forwarding"}

Quoted(s) == <<"\"">> \o s \o <<"\"">>
OptChars(o) ==
    IF IsFlag(o) THEN <<o.n>>
    ELSE <<o.n, "=">> \o
         Quoted(IF o.n \in {"from", "principals"} THEN ListChars(o.pl)
                ELSE IF o.n = "command" THEN o.v
                ELSE IF o.n = "environment" THEN o.v \o <<"=">> \o o.w
                ELSE o.v \o <<":">> \o o.w)

AKKeys == <<"k1", "k2">>
PrincMenu == <<"none", <<>>, <<pa>>, <<pa, qq>>, <<pb>>>>
AQMenu == [key : {1, 2}, host : {1, 2}, addr : {4, 1}, princ : 1..5, ca : BOOLEAN]
AHost(i) == IF i = 1 THEN a ELSE b

(* an entry is <<key index, sequence of option menu indices>> *)
EOpts(e) == [i \in 1..Len(e[2]) |-> OptMenu[e[2][i]]]
EIsCA(e) == \E i \in 1..Len(e[2]) : OptMenu[e[2][i]].n = "cert-authority"
OptsNamed(e, n) == SelectSeq(EOpts(e), LAMBDA o : o.n = n)

FromOK(e, q) ==
    LET fs == OptsNamed(e, "from")
        ok(o) == ListMatch(o.pl, AHost(q.host), AddrStr(q.addr), q.addr)
    IN  IF AnyFromSuffices THEN fs = <<>> \/ \E i \in 1..Len(fs) : ok(fs[i])
        ELSE \A i \in 1..Len(fs) : ok(fs[i])
PrincOK(e, q) ==
    LET ps == OptsNamed(e, "principals")
        cp == PrincMenu[q.princ]
    IN  (q.princ = 1 \/ ps = <<>>) \/
        \A i \in 1..Len(ps) : \E j \in 1..Len(cp) : NameListMatch(ps[i].pl, cp[j])
EntryOK(e, q) == e[1] = q.key /\ EIsCA(e) = q.ca /\ FromOK(e, q) /\ PrincOK(e, q)

AKResult(file, q) ==      \* index of the entry whose options are returned, 0 = None
    LET S == {i \in 1..Len(file) : EntryOK(file[i], q)}
    IN  IF S = {} THEN 0 ELSE CHOOSE i \in S : \A j \in S : i <= j

(* normal form of the returned option map *)
LastOf(s) == s[Len(s)]
CmdOf(e) == LET c == OptsNamed(e, "command") IN IF c = <<>> THEN <<"-">> ELSE <<"+">> \o LastOf(c).v
RECURSIVE EnvFold(_, _)
EnvFold(os, acc) ==
    IF os = <<>> THEN acc
    ELSE LET o == Head(os)
             at == {i \in 1..Len(acc) : acc[i][1] = o.v}
         IN  IF at = {} THEN EnvFold(Tail(os), Append(acc, <<o.v, o.w>>))
             ELSE EnvFold(Tail(os), [acc EXCEPT ![CHOOSE i \in at : TRUE] = <<o.v, o.w>>])
EnvOf(e) == EnvFold(OptsNamed(e, "environment"), <<>>)
PermitOf(e) == LET p == OptsNamed(e, "permitopen")
               IN  [i \in 1..Len(p) |-> <<IF Head(p[i].v) = "[" THEN SubSeq(p[i].v, 2, Len(p[i].v) - 1)
                                          ELSE p[i].v, p[i].w>>]
FlagsOf(e) == LET f == SelectSeq(EOpts(e), IsFlag) IN [i \in 1..Len(f) |-> f[i].n]

-----------------------------------------------------------------------------
(* the case table *)
VARIABLE c
vars == <<c>>

PatAlpha  == {"a", "b", "*", "?", "["} \cup (IF Upper THEN {"A"} ELSE {})
SubjAlpha == {"a", "b", "["} \cup (IF Upper THEN {"A"} ELSE {})
PatItems  == [neg : BOOLEAN, t : Strs(PatAlpha, 1, MaxPat)]
PatCases  == [pl : UNION {[1..n -> PatItems] : n \in 1..MaxItems},
              s : Strs(SubjAlpha, 1, MaxSubj)]
PatList(x) == [i \in 1..Len(x.pl) |-> W(x.pl[i].neg, x.pl[i].t)]

LineIdx  == HFSel \X MarkSel \X KeySel
KHCases  == [file : UNION {[1..n -> LineIdx] : n \in 1..MaxLines}, q : QSel]
RECURSIVE FileHash(_)
FileHash(f) == IF f = <<>> THEN 7
               ELSE (FileHash(Tail(f)) * 31 + Head(f)[1] * 9 + Head(f)[2] * 3 + Head(f)[3]) % 100003

TokCases == [s : Strs(TokAlpha, 0, MaxTok)]

OptSeqs  == UNION {[1..n -> OptSel] : n \in 0..MaxOpts}
Entries  == {1, 2} \X OptSeqs
Hists(S) == {h \in UNION {[1..n -> S] : n \in 2..MaxHist} : \A i \in 1..(Len(h) - 1) : h[i] # h[i + 1]}
HistCases == [file : UNION {[1..n -> LineIdx] : n \in 1..MaxLines}, qs : Hists(QSel)]
AKCases  == [file : UNION {[1..n -> Entries] : n \in 1..MaxEntries}, q : AQMenu]
RECURSIVE SeqHash(_)
SeqHash(s) == IF s = <<>> THEN 3 ELSE (SeqHash(Tail(s)) * 17 + Head(s)) % 100003
RECURSIVE AKHash(_)
AKHash(f) == IF f = <<>> THEN 5
             ELSE (AKHash(Tail(f)) * 29 + Head(f)[1] * 11 + SeqHash(Head(f)[2])) % 100003
QHash(q) == q.key * 2 + q.host * 3 + q.addr * 5 + q.princ * 7 + (IF q.ca THEN 11 ELSE 0)

Keep(h) == h % SampleMod = SampleRem
AQSel == {q \in AQMenu : q.princ \in {1, 3} /\ ~q.ca}       \* akhist: 8 queries
AKHistCases == [file : UNION {[1..n -> Entries] : n \in 1..MaxEntries}, qs : Hists(AQSel)]
RECURSIVE QsHash(_)
QsHash(qs) == IF qs = <<>> THEN 1 ELSE (QsHash(Tail(qs)) * 37 + Head(qs)) % 100003
RECURSIVE AQsHash(_)
AQsHash(qs) == IF qs = <<>> THEN 1 ELSE (AQsHash(Tail(qs)) * 37 + QHash(Head(qs))) % 100003

Init ==
    \/ Mode = "pat" /\ c \in PatCases
    \/ Mode = "kh"  /\ c \in KHCases /\ Keep(FileHash(c.file) + c.q * 13)
    \/ Mode = "tok" /\ c \in TokCases
    \/ Mode = "ak"  /\ c \in AKCases /\ Keep(AKHash(c.file) + QHash(c.q))
    \/ Mode = "hist" /\ c \in HistCases /\ Keep(FileHash(c.file) + QsHash(c.qs))
    \/ Mode = "akhist" /\ c \in AKHistCases /\ Keep(AKHash(c.file) + AQsHash(c.qs))
Next == UNCHANGED c
Spec == Init /\ [][Next]_vars

-----------------------------------------------------------------------------
(* properties of the rules (checked on every case) *)

PatMatched == ListMatch(PatList(c), c.s, <<>>, -1)

WildIsRef ==              \* the recursive matcher equals the declarative one
    Mode = "pat" => \A i \in 1..Len(c.pl) : Wild(c.pl[i].t, c.s) = WildRef(c.pl[i].t, c.s)

NegationExcludes ==       \* a negated match always excludes the line / entry
    /\ Mode = "pat" =>
         ((\E i \in 1..Len(c.pl) : c.pl[i].neg /\ Wild(c.pl[i].t, c.s)) => ~PatMatched)
    /\ Mode = "kh" =>
         \A i \in 1..Len(c.file) : \A wp \in BOOLEAN :
            LET hf == HFOf(c.file[i]) q == QMenu[c.q] IN
            (hf.kind = "l" /\ NegMatch(hf.items, HostS(q, wp), AddrS(q, wp), IpOf(q)))
               => ~LineHit(hf, q, wp)
    /\ Mode = "ak" =>
         \A i \in 1..Len(c.file) :
            (\E j \in 1..Len(c.file[i][2]) :
                LET o == OptMenu[c.file[i][2][j]] IN
                o.n = "from" /\ NegMatch(o.pl, AHost(c.q.host), AddrStr(c.q.addr), c.q.addr))
               => AKResult(c.file, c.q) # i

PositiveNeeded ==         \* only-negative lists never match
    Mode = "pat" => ((\A i \in 1..Len(c.pl) : c.pl[i].neg) => ~PatMatched)

DamagedLineIsLocal ==     \* a line with an unparsable key changes nothing else
    Mode = "kh" => KHResult(c.file, QMenu[c.q]) = KHResult(Purge(c.file), QMenu[c.q])

FallbackRule ==           \* [host]:port first; plain name only if nothing trusted matched
    Mode = "kh" =>
        LET q == QMenu[c.q]  r == KHResult(c.file, q)  rp == Lookup(c.file, q, TRUE)
        IN  IF q[3] = 0 THEN r = Lookup(c.file, q, FALSE)
            ELSE IF rp.host # <<>> \/ rp.ca # <<>> THEN r = rp
            ELSE /\ r.host = Lookup(c.file, q, FALSE).host
                 /\ r.ca = Lookup(c.file, q, FALSE).ca

RevocationKept ==         \* a key revoked for [host]:port or for the plain name is reported revoked
    Mode = "kh" =>
        LET q == QMenu[c.q]  r == KHResult(c.file, q)
            Set(s) == {s[i] : i \in 1..Len(s)}
        IN  /\ q[3] # 0 => Set(Lookup(c.file, q, TRUE).rev) \subseteq Set(r.rev)
            /\ (q[3] = 0 \/ (Lookup(c.file, q, TRUE).host = <<>> /\ Lookup(c.file, q, TRUE).ca = <<>>))
                  => Set(Lookup(c.file, q, FALSE).rev) \subseteq Set(r.rev)

LiteralHostIsAddress ==   \* an IP-literal host without a peer address is looked up like that address
    Mode = "kh" =>
        LET q == QMenu[c.q]
            S(r) == <<{r.host[i] : i \in 1..Len(r.host)}, {r.ca[i] : i \in 1..Len(r.ca)},
                      {r.rev[i] : i \in 1..Len(r.rev)}>>
        IN  (q[1].k = "ip" /\ q[2] < 0) =>
                S(KHResult(c.file, q)) = S(KHResult(c.file, <<q[1], q[1].x, q[3]>>))

HistoryFree ==            \* every lookup on a used object gives what a freshly loaded object gives
    Mode = "hist" =>
        LET h == HistRun(c.file, c.qs, <<>>)
        IN  \A i \in 1..Len(c.qs) : h[i] = KHResult(c.file, QMenu[c.qs[i]])

MarkerPartition ==        \* every selected line lands in exactly the list its marker names
    Mode = "kh" =>
        \A wp \in BOOLEAN :
            LET q == QMenu[c.q] r == Lookup(c.file, q, wp) hits == HitSeq(c.file, q, wp)
            IN  Len(r.host) + Len(r.ca) + Len(r.rev) =
                  Len(SelectSeq(hits, LAMBDA i : Keys[c.file[i][3]] # "D"))

OrderFree ==              \* reversing the file selects the same keys
    Mode = "kh" =>
        LET n == Len(c.file)
            rev == [i \in 1..n |-> c.file[n + 1 - i]]
            S(r) == <<{r.host[i] : i \in 1..Len(r.host)}, {r.ca[i] : i \in 1..Len(r.ca)},
                      {r.rev[i] : i \in 1..Len(r.rev)}>>
        IN  S(KHResult(c.file, QMenu[c.q])) = S(KHResult(rev, QMenu[c.q]))

TokPlain ==               \* without quoting the tokens are the comma-separated pieces
    Mode = "tok" =>
        ((c.s # <<>> /\ Plain(c.s) /\ TokResult(c.s).out = "ok") =>
            LET pieces == SplitComma(c.s, <<>>)
            IN  \A i \in 1..Len(pieces) :
                   \E j \in 1..Len(TokResult(c.s).opts) :
                       TokResult(c.s).opts[j][1] = TokName(pieces[i]))
TokQuotes ==              \* an odd number of quotes (no backslash, no blank) is an error
    Mode = "tok" =>
        (((\A i \in 1..Len(c.s) : c.s[i] \notin {"\\", " "}) /\ QuoteCount(c.s) % 2 = 1)
            => TokResult(c.s).out = "err")

AllMustMatch ==           \* the selected entry satisfies every from= and principals=
    Mode = "ak" =>
        LET r == AKResult(c.file, c.q) IN
        r # 0 =>
          /\ c.file[r][1] = c.q.key
          /\ \A j \in 1..Len(c.file[r][2]) :
               LET o == OptMenu[c.file[r][2][j]] IN
               /\ o.n = "from" => PosMatch(o.pl, AHost(c.q.host), AddrStr(c.q.addr), c.q.addr)
               /\ (o.n = "principals" /\ c.q.princ # 1) =>
                     \E k \in 1..Len(PrincMenu[c.q.princ]) :
                         NameListMatch(o.pl, PrincMenu[c.q.princ][k])
FirstEntryWins ==
    Mode = "ak" =>
        LET r == AKResult(c.file, c.q) IN
        \A i \in 1..Len(c.file) : EntryOK(c.file[i], c.q) => (r # 0 /\ r <= i)

(* witnesses: must be violated (the interesting situations are reachable) *)
NeverFallsBack == ~(Mode = "kh" /\ QMenu[c.q][3] # 0 /\
                    Lookup(c.file, QMenu[c.q], TRUE).host = <<>> /\
                    Lookup(c.file, QMenu[c.q], TRUE).ca = <<>> /\
                    KHResult(c.file, QMenu[c.q]).host # <<>>)
NeverNegExcluded == ~(Mode = "pat" /\ PosMatch(PatList(c), c.s, <<>>, -1) /\ ~PatMatched)

-----------------------------------------------------------------------------
(* emission: one line per case, tuples / strings / numbers / booleans only *)
B2N(x) == IF x THEN 1 ELSE 0

EmitPat == PrintT(<<"pat", [i \in 1..Len(c.pl) |-> <<B2N(c.pl[i].neg), c.pl[i].t>>], c.s,
                    B2N(PatMatched)>>)
EmitKH ==
    LET q == QMenu[c.q]
        r == KHResult(c.file, q)
        one == SelIdx(LAMBDA i : LineHit(HFOf(c.file[i]), q, q[3] # 0), Len(c.file))
    IN  PrintT(<<"kh", c.file, c.q, r.host, r.ca, r.rev, one>>)
EmitTok == LET r == TokResult(c.s)
           IN  PrintT(<<"tok", c.s, r.out,
                        [i \in 1..Len(r.opts) |-> <<r.opts[i][1], B2N(r.opts[i][2]), r.opts[i][3]>>]>>)
EmitAK ==
    LET r == AKResult(c.file, c.q)
        e == c.file[r]
    IN  PrintT(<<"ak", c.file, <<c.q.key, c.q.host, c.q.addr, c.q.princ, B2N(c.q.ca)>>, r,
                 IF r = 0 THEN <<>>
                 ELSE <<CmdOf(e), EnvOf(e), PermitOf(e), FlagsOf(e),
                        Len(OptsNamed(e, "from")), Len(OptsNamed(e, "principals"))>>>>)

EmitCase ==
    Emit => CASE Mode = "pat" -> EmitPat
              [] Mode = "kh"  -> EmitKH
              [] Mode = "tok" -> EmitTok
              [] Mode = "ak"  -> EmitAK
              [] Mode = "hist" ->
                   PrintT(<<"hist", c.file, c.qs,
                            [i \in 1..Len(c.qs) |->
                               LET r == KHResult(c.file, QMenu[c.qs[i]]) IN <<r.host, r.ca, r.rev>>]>>)
              [] Mode = "akhist" ->
                   PrintT(<<"akhist", c.file,
                            [i \in 1..Len(c.qs) |->
                               LET q == c.qs[i] r == AKResult(c.file, q)
                               IN  <<<<q.key, q.host, q.addr, q.princ, B2N(q.ca)>>, r,
                                     IF r = 0 THEN <<>>
                                     ELSE <<CmdOf(c.file[r]), EnvOf(c.file[r]), PermitOf(c.file[r]),
                                            FlagsOf(c.file[r]), Len(OptsNamed(c.file[r], "from")),
                                            Len(OptsNamed(c.file[r], "principals"))>>>>]>>)

(* the menus, printed once so that the harness builds exactly these texts *)
MenuDump ==
    <<"menu",
      [i \in 1..Len(HFMenu) |-> IF HFMenu[i].kind = "h"
                                   THEN <<"h", HFMenu[i].name, HFMenu[i].salt>>
                                   ELSE <<"l", HFChars(HFMenu[i]), B2N(IsPattern(HFMenu[i]))>>],
      Markers, Keys,
      [i \in 1..Len(QMenu) |-> <<HostChars(QMenu[i][1]), AddrS(QMenu[i], FALSE), QMenu[i][3], QMenu[i][1].k>>],
      [i \in 1..Len(OptMenu) |-> OptChars(OptMenu[i])],
      AKKeys, PrincMenu>>
ASSUME Emit => PrintT(MenuDump)
=============================================================================
