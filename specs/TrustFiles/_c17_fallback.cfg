CONSTANTS
  Mode = "kh"
  Emit = FALSE
  MaxPat = 2
  MaxSubj = 2
  MaxItems = 1
  Upper = FALSE
  MaxLines = 2
  HFSel = {1, 8}
  MarkSel = {1}
  KeySel = {1}
  MaxTok = 2
  MaxEntries = 1
  MaxOpts = 1
  OptSel = {1}
  SampleMod = 1
  SampleRem = 0
  NegIgnored = FALSE
  FallbackAlways = TRUE
  AnyFromSuffices = FALSE
  CaseFold = FALSE
SPECIFICATION Spec
CHECK_DEADLOCK FALSE
INVARIANT FallbackRule
