CONSTANTS
  Mode = "ak"
  Emit = FALSE
  MaxPat = 2
  MaxSubj = 2
  MaxItems = 1
  Upper = FALSE
  MaxLines = 1
  HFSel = {1}
  MarkSel = {1}
  KeySel = {1}
  MaxTok = 2
  MaxEntries = 1
  MaxOpts = 2
  OptSel = {1, 2, 3, 4, 17}
  SampleMod = 1
  SampleRem = 0
  NegIgnored = FALSE
  FallbackAlways = FALSE
  AnyFromSuffices = TRUE
  CaseFold = FALSE
SPECIFICATION Spec
CHECK_DEADLOCK FALSE
INVARIANT AllMustMatch
