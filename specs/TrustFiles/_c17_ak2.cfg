CONSTANTS
  Mode = "ak"
  Emit = TRUE
  MaxPat = 2
  MaxSubj = 2
  MaxItems = 1
  Upper = FALSE
  MaxLines = 1
  HFSel = {1}
  MarkSel = {1}
  KeySel = {1}
  MaxTok = 2
  MaxEntries = 2
  MaxOpts = 1
  OptSel = {1, 2, 3, 4, 5, 6, 7, 8, 9, 10, 11, 12, 13, 14, 15, 16, 17}
  SampleMod = 30
  SampleRem = 0
  NegIgnored = FALSE
  FallbackAlways = FALSE
  AnyFromSuffices = FALSE
  CaseFold = FALSE
SPECIFICATION Spec
CHECK_DEADLOCK FALSE
INVARIANT NegationExcludes
INVARIANT AllMustMatch
INVARIANT FirstEntryWins
INVARIANT EmitCase
