CONSTANTS
  Mode = "pat"
  Emit = FALSE
  MaxPat = 1
  MaxSubj = 1
  MaxItems = 2
  Upper = FALSE
  MaxLines = 1
  HFSel = {1}
  MarkSel = {1}
  KeySel = {1}
  MaxTok = 2
  MaxEntries = 1
  MaxOpts = 1
  OptSel = {1}
  SampleMod = 1
  SampleRem = 0
  NegIgnored = FALSE
  FallbackAlways = FALSE
  AnyFromSuffices = FALSE
  CaseFold = FALSE
SPECIFICATION Spec
CHECK_DEADLOCK FALSE
INVARIANT NeverNegExcluded
