----------------------------- MODULE Lifecycle -----------------------------
(***************************************************************************)
(* Life cycle of session channels and of the connection in asyncssh:       *)
(* open / confirm / failure, the exec request and its reply, EOF, the      *)
(* CLOSE handshake, local close/abort, connection close (DISCONNECT),      *)
(* abort and loss of the transport at any moment, with the deferred        *)
(* clean-up callbacks (loop.call_soon(self._cleanup)) as explicit steps.   *)
(* Sources: channel.py _open, process_open, _finish_open_request,          *)
(* process_open_confirmation/failure, create, _process_eof/_close,         *)
(* close, abort, _close_send, _discard_recv, _flush_recv_buf, _cleanup,    *)
(* process_connection_close; connection.py disconnect, abort,              *)
(* _force_close, _cleanup, _process_disconnect, connection_lost.           *)
(* Sides: "c" opens channels, "s" accepts them.                            *)
(***************************************************************************)
EXTENDS Naturals, Sequences, FiniteSets, TLC

CONSTANTS Chans,        \* channel ids
          Reject,       \* channels whose open the server application refuses
          MaxOps,       \* budget of application-level operations
          Cuts,         \* budget of transport cuts (0 or 1)
          ResolveOnConnCleanup  \* FALSE: sensitivity variant, connection clean-up forgets the open waiters

Sides == {"c", "s"}
Other(x) == IF x = "c" THEN "s" ELSE "c"

VARIABLES
    ss, rs,       \* [side -> [ch -> send/recv state]]
    reg,          \* [side -> [ch -> BOOLEAN]]  channel registered on the connection
    phase,        \* [ch -> "none"|"opening"|"requesting"|"started"|"failed"] client create() progress
    openW,        \* [ch -> "none"|"pending"|"ok"|"err"]      _open_waiter
    reqW,         \* [ch -> "none"|"pending"|"ok"|"false"|"err"] exec request waiter
    createW,      \* [ch -> "none"|"pending"|"ok"|"err"]      the create_session() call
    hasSess,      \* [side -> [ch -> BOOLEAN]]  channel has a session attached
    reading,      \* [side -> [ch -> BOOLEAN]]  _recv_paused left 'starting'
    log,          \* [side -> [ch -> Seq(callback names)]]
    closeEv,      \* [side -> [ch -> BOOLEAN]]  channel close event set
    up,           \* [side -> BOOLEAN] transport attached
    connClosed,   \* [side -> BOOLEAN] connection clean-up ran
    ownerLost,    \* [side -> Nat]  connection_lost calls on the owner
    net,          \* [side -> Seq(msg)] messages written by side, not yet received by the peer
    chunk,        \* <<side, n>>: n more messages written by side are handled in the running data_received call
    ready,        \* FIFO of deferred callbacks <<side, kind, ch>>
    nops, ncuts,
    lbl

vars == <<ss, rs, reg, phase, openW, reqW, createW, hasSess, reading, log, closeEv, up,
          connClosed, ownerLost, net, chunk, ready, nops, ncuts, lbl>>
view == <<ss, rs, reg, phase, openW, reqW, createW, hasSess, reading, log, closeEv, up,
          connClosed, ownerLost, net, chunk, ready, nops, ncuts>>

Msg(t, ch) == [t |-> t, ch |-> ch]

Init ==
    /\ ss = [x \in Sides |-> [c \in Chans |-> "closed"]]
    /\ rs = [x \in Sides |-> [c \in Chans |-> "closed"]]
    /\ reg = [x \in Sides |-> [c \in Chans |-> FALSE]]
    /\ phase = [c \in Chans |-> "none"]
    /\ openW = [c \in Chans |-> "none"] /\ reqW = [c \in Chans |-> "none"]
    /\ createW = [c \in Chans |-> "none"]
    /\ hasSess = [x \in Sides |-> [c \in Chans |-> FALSE]]
    /\ reading = [x \in Sides |-> [c \in Chans |-> FALSE]]
    /\ log = [x \in Sides |-> [c \in Chans |-> <<>>]]
    /\ closeEv = [x \in Sides |-> [c \in Chans |-> FALSE]]
    /\ up = [x \in Sides |-> TRUE] /\ connClosed = [x \in Sides |-> FALSE]
    /\ ownerLost = [x \in Sides |-> 0]
    /\ net = [x \in Sides |-> <<>>] /\ chunk = <<"c", 0>>
    /\ ready = <<>> /\ nops = 0 /\ ncuts = 0
    /\ lbl = <<"init">>

Idle == ready = <<>> /\ chunk[2] = 0

\* send_packet on a connection whose transport is gone is dropped
Send(x, msgs) == IF up[x] THEN [net EXCEPT ![x] = @ \o msgs] ELSE net

-----------------------------------------------------------------------------
(* Channel-level helpers, as pure functions over the per-side maps *)

\* _close_send: CLOSE is sent once
CloseSendMsgs(x, ch) == IF ss[x][ch] # "closed" /\ reg[x][ch] THEN <<Msg("CLOSE", ch)>> ELSE <<>>

-----------------------------------------------------------------------------
(* Application operations (external) *)

Open(ch) ==
    /\ Idle /\ nops < MaxOps /\ phase[ch] = "none" /\ up["c"]
    /\ phase' = [phase EXCEPT ![ch] = "opening"]
    /\ reg' = [reg EXCEPT !["c"][ch] = TRUE]
    /\ openW' = [openW EXCEPT ![ch] = "pending"]
    /\ createW' = [createW EXCEPT ![ch] = "pending"]
    /\ net' = Send("c", <<Msg("OPEN", ch)>>)
    /\ nops' = nops + 1 /\ lbl' = <<"open", ch>>
    /\ UNCHANGED <<ss, rs, reqW, hasSess, reading, log, closeEv, up, connClosed, ownerLost,
                   chunk, ready, ncuts>>

WriteEOF(x, ch) ==
    /\ Idle /\ nops < MaxOps /\ ss[x][ch] = "open" /\ hasSess[x][ch]
    /\ ss' = [ss EXCEPT ![x][ch] = "eof"]
    /\ net' = Send(x, <<Msg("EOF", ch)>>)
    /\ nops' = nops + 1 /\ lbl' = <<"weof", x, ch>>
    /\ UNCHANGED <<rs, reg, phase, openW, reqW, createW, hasSess, reading, log, closeEv, up,
                   connClosed, ownerLost, chunk, ready, ncuts>>

\* close() and abort() coincide when nothing is buffered
Close(x, ch, how) ==
    /\ Idle /\ nops < MaxOps /\ reg[x][ch] /\ hasSess[x][ch]
    /\ ss[x][ch] \in {"open", "eof"}
    /\ net' = Send(x, CloseSendMsgs(x, ch))
    /\ ss' = [ss EXCEPT ![x][ch] = "closed"]
    \* _discard_recv: only cleans up if the peer's CLOSE was already seen
    /\ UNCHANGED rs
    /\ nops' = nops + 1 /\ lbl' = <<how, x, ch>>
    /\ UNCHANGED <<reg, phase, openW, reqW, createW, hasSess, reading, log, closeEv, up,
                   connClosed, ownerLost, chunk, ready, ncuts>>

\* conn.close(): close every channel, DISCONNECT, _force_close
ConnClose(x) ==
    /\ Idle /\ nops < MaxOps /\ up[x]
    /\ LET chs == {c \in Chans : reg[x][c]}
           closing == {c \in chs : ss[x][c] \in {"open", "eof"}}
           msgs == [i \in 1..0 |-> 0]
       IN /\ net' = [net EXCEPT ![x] = @ \o
                        \* CLOSE for every channel that is open for sending, in channel order
                        (IF 1 \in closing THEN <<Msg("CLOSE", 1)>> ELSE <<>>) \o
                        (IF 2 \in closing THEN <<Msg("CLOSE", 2)>> ELSE <<>>) \o
                        <<Msg("DISC", 0), Msg("LOST", 0)>>]
          /\ ss' = [ss EXCEPT ![x] = [c \in Chans |-> IF c \in closing THEN "closed" ELSE ss[x][c]]]
    /\ up' = [up EXCEPT ![x] = FALSE]
    /\ ready' = Append(ready, <<x, "conn", 0>>)
    /\ nops' = nops + 1 /\ lbl' = <<"connclose", x>>
    /\ UNCHANGED <<rs, reg, phase, openW, reqW, createW, hasSess, reading, log, closeEv,
                   connClosed, ownerLost, chunk, ncuts>>

\* conn.abort(): no DISCONNECT; the peer sees the transport go away
ConnAbort(x) ==
    /\ Idle /\ nops < MaxOps /\ up[x]
    /\ up' = [up EXCEPT ![x] = FALSE]
    /\ net' = [net EXCEPT ![x] = Append(@, Msg("LOST", 0))]
    /\ ready' = Append(ready, <<x, "conn", 0>>)
    /\ nops' = nops + 1 /\ lbl' = <<"connabort", x>>
    /\ UNCHANGED <<ss, rs, reg, phase, openW, reqW, createW, hasSess, reading, log, closeEv,
                   connClosed, ownerLost, chunk, ncuts>>

\* the transport is cut: both ends get connection_lost, nothing in flight arrives
Cut ==
    /\ Idle /\ ncuts < Cuts /\ (up["c"] \/ up["s"])
    /\ up' = [x \in Sides |-> FALSE]
    /\ net' = [x \in Sides |-> <<>>]
    /\ ready' = ready \o (IF up["c"] THEN <<<<"c", "conn", 0>>>> ELSE <<>>)
                      \o (IF up["s"] THEN <<<<"s", "conn", 0>>>> ELSE <<>>)
    /\ ncuts' = ncuts + 1 /\ lbl' = <<"cut">> /\ chunk' = <<"c", 0>>
    /\ UNCHANGED <<ss, rs, reg, phase, openW, reqW, createW, hasSess, reading, log, closeEv,
                   connClosed, ownerLost, nops>>

-----------------------------------------------------------------------------
(* Delivery of one message written by side x to its peer y *)

\* a protocol error at y: DISCONNECT sent, _force_close
ProtoErr(y) ==
    /\ up' = [up EXCEPT ![y] = FALSE]
    /\ ready' = Append(ready, <<y, "conn", 0>>)

\* the network hands k messages written by x to the peer in one data_received call
StartChunk(x, k) ==
    /\ Idle /\ k >= 1 /\ k <= Len(net[x])
    \* end-of-stream is a separate read event, never part of a data chunk
    /\ k = 1 \/ \A i \in 1..k : net[x][i].t # "LOST"
    /\ chunk' = <<x, k>>
    /\ lbl' = <<"chunk", x, k>>
    /\ UNCHANGED <<ss, rs, reg, phase, openW, reqW, createW, hasSess, reading, log, closeEv, up,
                   connClosed, ownerLost, net, ready, nops, ncuts>>

Deliver(x) ==
    /\ chunk[1] = x /\ chunk[2] > 0 /\ net[x] # <<>>
    /\ chunk' = <<x, chunk[2] - 1>>
    /\ LET y == Other(x) m == Head(net[x]) ch == m.ch IN
       /\ lbl' = <<"deliver", x, m.t, ch>>
       /\ UNCHANGED <<nops, ncuts, connClosed, ownerLost>>
       /\ IF ~up[y] /\ m.t # "LOST"
          THEN \* receiver already gone: bytes are dropped
               /\ net' = [net EXCEPT ![x] = Tail(@)]
               /\ UNCHANGED <<ss, rs, reg, phase, openW, reqW, createW, hasSess, reading, log,
                              closeEv, up, ready>>
          ELSE CASE m.t = "LOST" ->
                    \* peer's transport went away: connection_lost at y
                    /\ net' = [net EXCEPT ![x] = Tail(@)]
                    /\ IF up[y]
                       THEN /\ up' = [up EXCEPT ![y] = FALSE]
                            /\ ready' = Append(ready, <<y, "conn", 0>>)
                       ELSE UNCHANGED <<up, ready>>
                    /\ UNCHANGED <<ss, rs, reg, phase, openW, reqW, createW, hasSess, reading,
                                   log, closeEv>>
               [] m.t = "DISC" ->
                    /\ net' = [net EXCEPT ![x] = Tail(@)]
                    /\ up' = [up EXCEPT ![y] = FALSE]
                    /\ ready' = Append(ready, <<y, "conn", 0>>)
                    /\ UNCHANGED <<ss, rs, reg, phase, openW, reqW, createW, hasSess, reading,
                                   log, closeEv>>
               [] m.t = "OPEN" ->
                    \* server: channel created and registered; _finish_open_request is a task
                    /\ IF ch \in Reject
                       THEN /\ net' = [net EXCEPT ![x] = Tail(@), ![y] = Append(@, Msg("FAIL", ch))]
                            /\ UNCHANGED <<reg, ready>>
                       ELSE /\ net' = [net EXCEPT ![x] = Tail(@)]
                            /\ reg' = [reg EXCEPT ![y][ch] = TRUE]
                            /\ ready' = Append(ready, <<y, "finopen", ch>>)
                    /\ UNCHANGED <<ss, rs, phase, openW, reqW, createW, hasSess, reading, log,
                                   closeEv, up>>
               [] m.t = "CONF" ->
                    /\ net' = [net EXCEPT ![x] = Tail(@)]
                    /\ IF openW[ch] = "pending" /\ reg[y][ch]
                       THEN /\ openW' = [openW EXCEPT ![ch] = "ok"]
                            /\ ss' = [ss EXCEPT ![y][ch] = "open"]
                            /\ rs' = [rs EXCEPT ![y][ch] = "open"]
                            /\ ready' = Append(ready, <<y, "afteropen", ch>>)
                            /\ UNCHANGED up
                       ELSE /\ ProtoErr(y) /\ UNCHANGED <<openW, ss, rs>>
                    /\ UNCHANGED <<reg, phase, reqW, createW, hasSess, reading, log, closeEv>>
               [] m.t = "FAIL" ->
                    /\ net' = [net EXCEPT ![x] = Tail(@)]
                    /\ IF openW[ch] = "pending" /\ reg[y][ch]
                       THEN /\ openW' = [openW EXCEPT ![ch] = "err"]
                            /\ ready' = ready \o <<<<y, "chan", ch>>, <<y, "afteropen", ch>>>>
                            /\ UNCHANGED up
                       ELSE /\ ProtoErr(y) /\ UNCHANGED openW
                    /\ UNCHANGED <<ss, rs, reg, phase, reqW, createW, hasSess, reading, log, closeEv>>
               [] m.t = "REQ" ->
                    \* server: exec request; session_started on success
                    /\ IF reg[y][ch] /\ rs[y][ch] \in {"open", "eof_pending", "eof"}
                       THEN /\ net' = [net EXCEPT ![x] = Tail(@),
                                                  ![y] = IF ss[y][ch] # "closed" THEN Append(@, Msg("SUCC", ch)) ELSE @]
                            /\ log' = [log EXCEPT ![y][ch] =
                                          IF rs[y][ch] = "eof_pending"
                                          THEN @ \o <<"session_started", "eof_received">>
                                          ELSE Append(@, "session_started")]
                            /\ reading' = [reading EXCEPT ![y][ch] = TRUE]
                            /\ rs' = [rs EXCEPT ![y][ch] = IF @ = "eof_pending" THEN "eof" ELSE @]
                            /\ UNCHANGED <<up, ready>>
                       ELSE /\ net' = [net EXCEPT ![x] = Tail(@)]
                            /\ ProtoErr(y) /\ UNCHANGED <<log, reading, rs>>
                    /\ UNCHANGED <<ss, reg, phase, openW, reqW, createW, hasSess, closeEv>>
               [] m.t = "SUCC" ->
                    /\ net' = [net EXCEPT ![x] = Tail(@)]
                    /\ IF reg[y][ch] /\ reqW[ch] = "pending"
                       THEN /\ reqW' = [reqW EXCEPT ![ch] = "ok"]
                            /\ ready' = Append(ready, <<y, "afterreq", ch>>)
                            /\ UNCHANGED up
                       ELSE /\ ProtoErr(y) /\ UNCHANGED reqW
                    /\ UNCHANGED <<ss, rs, reg, phase, openW, createW, hasSess, reading, log, closeEv>>
               [] m.t = "EOF" ->
                    /\ net' = [net EXCEPT ![x] = Tail(@)]
                    /\ IF reg[y][ch] /\ rs[y][ch] = "open"
                       THEN /\ rs' = [rs EXCEPT ![y][ch] = IF reading[y][ch] THEN "eof" ELSE "eof_pending"]
                            /\ log' = [log EXCEPT ![y][ch] =
                                          IF hasSess[y][ch] /\ reading[y][ch]
                                          THEN Append(@, "eof_received") ELSE @]
                            /\ UNCHANGED <<up, ready>>
                       ELSE /\ ProtoErr(y) /\ UNCHANGED <<rs, log>>
                    /\ UNCHANGED <<ss, reg, phase, openW, reqW, createW, hasSess, reading, closeEv>>
               [] m.t = "CLOSE" ->
                    IF reg[y][ch] /\ rs[y][ch] \in {"open", "eof_pending", "eof"}
                    THEN \* _close_send, close_pending, flush (empty) -> closed, cleanup deferred
                         /\ net' = [net EXCEPT ![x] = Tail(@),
                                               ![y] = @ \o CloseSendMsgs(y, ch)]
                         /\ ss' = [ss EXCEPT ![y][ch] = "closed"]
                         /\ rs' = [rs EXCEPT ![y][ch] = "closed"]
                         /\ ready' = Append(ready, <<y, "chan", ch>>)
                         /\ UNCHANGED <<reg, phase, openW, reqW, createW, hasSess, reading, log,
                                        closeEv, up>>
                    ELSE /\ net' = [net EXCEPT ![x] = Tail(@)]
                         /\ ProtoErr(y)
                         /\ UNCHANGED <<ss, rs, reg, phase, openW, reqW, createW, hasSess,
                                        reading, log, closeEv>>
               [] OTHER -> FALSE

-----------------------------------------------------------------------------
(* Deferred callbacks and task continuations (internal, FIFO) *)

\* SSHChannel._cleanup on side x
ChanCleanupEffect(x, ch, lg, hs) ==
    [lg EXCEPT ![x][ch] = IF hs[x][ch] THEN Append(@, "connection_lost") ELSE @]

RunReady ==
    /\ ready # <<>> /\ chunk[2] = 0
    /\ LET e == Head(ready) x == e[1] k == e[2] ch == e[3] IN
       /\ lbl' = <<"run", x, k, ch>>
       /\ UNCHANGED <<nops, ncuts, chunk>>
       /\ CASE k = "finopen" ->
                 \* server _finish_open_request
                 IF reg[x][ch] /\ ~connClosed[x]
                 THEN /\ net' = Send(x, <<Msg("CONF", ch)>>)
                      /\ ss' = [ss EXCEPT ![x][ch] = "open"]
                      /\ rs' = [rs EXCEPT ![x][ch] = "open"]
                      /\ hasSess' = [hasSess EXCEPT ![x][ch] = TRUE]
                      /\ log' = [log EXCEPT ![x][ch] = Append(@, "connection_made")]
                      /\ ready' = Tail(ready)
                      /\ UNCHANGED <<reg, phase, openW, reqW, createW, reading, closeEv, up,
                                     connClosed, ownerLost>>
                 ELSE \* connection went away first: ChannelOpenError path, cleanup deferred
                      /\ ready' = Append(Tail(ready), <<x, "chan", ch>>)
                      /\ UNCHANGED <<ss, rs, reg, phase, openW, reqW, createW, hasSess, reading, log,
                                     closeEv, up, connClosed, ownerLost, net>>
            [] k = "afteropen" ->
                 \* client create() resumes after _open()
                 IF openW[ch] = "ok"
                 THEN \* session created, connection_made, exec request sent
                      /\ hasSess' = [hasSess EXCEPT ![x][ch] = TRUE]
                      /\ log' = [log EXCEPT ![x][ch] = Append(@, "connection_made")]
                      /\ IF reg[x][ch] /\ ss[x][ch] # "closed"    \* _send_chan still set
                         THEN /\ reqW' = [reqW EXCEPT ![ch] = "pending"]
                              /\ phase' = [phase EXCEPT ![ch] = "requesting"]
                              /\ net' = Send(x, <<Msg("REQ", ch)>>)
                              /\ UNCHANGED <<createW, ss>>
                         ELSE \* channel already cleaned up: _make_request returns False,
                              \* close(), ChannelOpenError
                              /\ reqW' = [reqW EXCEPT ![ch] = "false"]
                              /\ phase' = [phase EXCEPT ![ch] = "failed"]
                              /\ createW' = [createW EXCEPT ![ch] = "err"]
                              /\ UNCHANGED <<net, ss>>
                      /\ ready' = Tail(ready)
                      /\ UNCHANGED <<rs, reg, openW, reading, closeEv, up, connClosed, ownerLost>>
                 ELSE \* open failed: create() raises
                      /\ phase' = [phase EXCEPT ![ch] = "failed"]
                      /\ createW' = [createW EXCEPT ![ch] = "err"]
                      /\ ready' = Tail(ready)
                      /\ UNCHANGED <<ss, rs, reg, openW, reqW, hasSess, reading, log, closeEv, up,
                                     connClosed, ownerLost, net>>
            [] k = "afterreq" ->
                 \* client create() resumes after the exec reply
                 /\ ready' = IF reqW[ch] = "ok" THEN Append(Tail(ready), <<x, "startread", ch>>)
                             ELSE Tail(ready)
                 /\ IF reqW[ch] = "ok"
                    THEN /\ phase' = [phase EXCEPT ![ch] = "started"]
                         /\ createW' = [createW EXCEPT ![ch] = "ok"]
                         /\ log' = [log EXCEPT ![x][ch] =
                                       IF hasSess[x][ch] THEN Append(@, "session_started") ELSE @]
                         /\ UNCHANGED <<ss, net>>
                    ELSE \* request failed (clean-up answered False / exception): close()
                         /\ phase' = [phase EXCEPT ![ch] = "failed"]
                         /\ createW' = [createW EXCEPT ![ch] = "err"]
                         /\ net' = Send(x, CloseSendMsgs(x, ch))
                         /\ ss' = [ss EXCEPT ![x][ch] = IF reg[x][ch] THEN "closed" ELSE @]
                         /\ UNCHANGED log
                 /\ UNCHANGED <<rs, reg, openW, reqW, hasSess, reading, closeEv, up, connClosed,
                                ownerLost>>
            [] k = "chan" ->
                 \* SSHChannel._cleanup
                 /\ ready' = (IF x = "c" /\ openW[ch] = "pending"
                              THEN Append(Tail(ready), <<x, "afteropen", ch>>)
                              ELSE IF x = "c" /\ reqW[ch] = "pending"
                              THEN Append(Tail(ready), <<x, "afterreq", ch>>)
                              ELSE Tail(ready))
                 /\ openW' = IF x = "c" /\ openW[ch] = "pending"
                             THEN [openW EXCEPT ![ch] = "err"] ELSE openW
                 /\ reqW' = IF x = "c" /\ reqW[ch] = "pending"
                            THEN [reqW EXCEPT ![ch] = "false"] ELSE reqW
                 /\ log' = ChanCleanupEffect(x, ch, log, hasSess)
                 /\ hasSess' = [hasSess EXCEPT ![x][ch] = FALSE]
                 /\ closeEv' = [closeEv EXCEPT ![x][ch] = TRUE]
                 /\ reg' = [reg EXCEPT ![x][ch] = FALSE]
                 /\ UNCHANGED <<ss, rs, phase, createW, reading, up, connClosed, ownerLost, net>>
            [] k = "startread" ->
                 \* _start_reading: leave 'starting', flush: a pending EOF is delivered
                 /\ ready' = Tail(ready)
                 /\ reading' = [reading EXCEPT ![x][ch] = TRUE]
                 /\ IF rs[x][ch] = "eof_pending" /\ hasSess[x][ch]
                    THEN /\ rs' = [rs EXCEPT ![x][ch] = "eof"]
                         /\ log' = [log EXCEPT ![x][ch] = Append(@, "eof_received")]
                    ELSE UNCHANGED <<rs, log>>
                 /\ UNCHANGED <<ss, reg, phase, openW, reqW, createW, hasSess, closeEv, up,
                                connClosed, ownerLost, net>>
            [] k = "conn" ->
                 \* SSHConnection._cleanup: every registered channel is closed and
                 \* cleaned up at once (process_connection_close), owner notified
                 LET chs == {c \in Chans : reg[x][c]} IN
                 /\ connClosed' = [connClosed EXCEPT ![x] = TRUE]
                 /\ ownerLost' = [ownerLost EXCEPT ![x] = IF connClosed[x] THEN @ ELSE @ + 1]
                 /\ ss' = [ss EXCEPT ![x] = [c \in Chans |-> IF c \in chs THEN "closed" ELSE ss[x][c]]]
                 /\ log' = [log EXCEPT ![x] = [c \in Chans |->
                               IF c \in chs /\ hasSess[x][c] THEN Append(log[x][c], "connection_lost")
                               ELSE log[x][c]]]
                 /\ hasSess' = [hasSess EXCEPT ![x] = [c \in Chans |-> IF c \in chs THEN FALSE ELSE hasSess[x][c]]]
                 /\ closeEv' = [closeEv EXCEPT ![x] = [c \in Chans |-> closeEv[x][c] \/ c \in chs]]
                 /\ reg' = [reg EXCEPT ![x] = [c \in Chans |-> FALSE]]
                 /\ openW' = IF x = "c" /\ ResolveOnConnCleanup
                             THEN [c \in Chans |-> IF c \in chs /\ openW[c] = "pending" THEN "err" ELSE openW[c]]
                             ELSE openW
                 /\ reqW' = IF x = "c" THEN [c \in Chans |-> IF c \in chs /\ reqW[c] = "pending" THEN "err" ELSE reqW[c]]
                            ELSE reqW
                 /\ ready' = LET w1 == IF x = "c" /\ 1 \in chs /\ openW[1] = "pending" /\ ResolveOnConnCleanup THEN <<<<x, "afteropen", 1>>>>
                                       ELSE IF x = "c" /\ 1 \in chs /\ reqW[1] = "pending" THEN <<<<x, "afterreq", 1>>>> ELSE <<>>
                                 w2 == IF x = "c" /\ 2 \in chs /\ openW[2] = "pending" /\ ResolveOnConnCleanup THEN <<<<x, "afteropen", 2>>>>
                                       ELSE IF x = "c" /\ 2 \in chs /\ reqW[2] = "pending" THEN <<<<x, "afterreq", 2>>>> ELSE <<>>
                             IN Tail(ready) \o w1 \o w2
                 /\ UNCHANGED <<rs, phase, createW, reading, up, net>>
            [] OTHER -> FALSE

Next ==
    \/ RunReady
    \/ \E ch \in Chans : Open(ch)
    \/ \E x \in Sides, ch \in Chans : WriteEOF(x, ch) \/ Close(x, ch, "close") \/ Close(x, ch, "abort")
    \/ \E x \in Sides : ConnClose(x) \/ ConnAbort(x) \/ Deliver(x)
    \/ \E x \in Sides, k \in 1..3 : StartChunk(x, k)
    \/ Cut

Spec == Init /\ [][Next]_vars
LiveSpec == Spec /\ WF_vars(RunReady) /\ \A x \in Sides : WF_vars(Deliver(x)) /\ WF_vars(StartChunk(x, 1))

-----------------------------------------------------------------------------
(* Properties (C09) *)
Count(s, v) == Cardinality({i \in 1..Len(s) : s[i] = v})
LastIs(s, v) == s # <<>> /\ s[Len(s)] = v

\* final close notification exactly once and nothing after it
CloseOnceAndLast == \A x \in Sides, ch \in Chans :
    /\ Count(log[x][ch], "connection_lost") <= 1
    /\ Count(log[x][ch], "connection_lost") = 1 => LastIs(log[x][ch], "connection_lost")
    /\ ownerLost[x] <= 1
LegalOrder == \A x \in Sides, ch \in Chans :
    /\ log[x][ch] # <<>> => log[x][ch][1] = "connection_made"
    /\ Count(log[x][ch], "connection_made") <= 1
    /\ Count(log[x][ch], "session_started") <= 1
    /\ Count(log[x][ch], "eof_received") <= 1
NoChannelLeft == \A x \in Sides : connClosed[x] => \A ch \in Chans : ~reg[x][ch]

Quiescent == ready = <<>> /\ \A x \in Sides : net[x] = <<>>
\* at quiescence: every waiter is resolved unless it legitimately waits for the
\* peer's reply over a connection that is still up
ConnDown(x) == connClosed[x]
AllWaitersResolved ==
    Quiescent =>
      /\ \A ch \in Chans : createW[ch] = "pending" => (~ConnDown("c") /\ ~ConnDown("s"))
      /\ \A ch \in Chans : openW[ch] = "pending" => (~ConnDown("c") /\ ~ConnDown("s"))
      /\ \A x \in Sides : connClosed[x] => \A ch \in Chans : (log[x][ch] # <<>> => closeEv[x][ch])
\* a session that was told connection_made is eventually told connection_lost
\* once its connection is closed
MadeImpliesLost ==
    Quiescent => \A x \in Sides, ch \in Chans :
        (connClosed[x] /\ Count(log[x][ch], "connection_made") = 1)
            => Count(log[x][ch], "connection_lost") = 1
\* once the transport is gone on one side, the connection clean-up runs
Terminates == \A x \in Sides : (~up[x]) ~> connClosed[x]

\* witnesses
NeverStarted == \A ch \in Chans : phase[ch] # "started"
NeverErr == \A ch \in Chans : createW[ch] # "err"
=============================================================================
