----------------------------- MODULE Lifecycle -----------------------------
(***************************************************************************)
(* Life cycle of session channels and of the connection in asyncssh:       *)
(* open / confirm / failure, the exec request and its reply, data with     *)
(* pause/resume of reading, EOF, the CLOSE handshake, local close/abort,   *)
(* connection close (DISCONNECT), abort and loss of the transport at any   *)
(* moment, several packets coalesced into one read, and the deferred       *)
(* callbacks (loop.call_soon(self._cleanup), task wake-ups) as explicit    *)
(* FIFO steps.                                                             *)
(* Sources: channel.py _open, process_open, _finish_open_request,          *)
(* process_open_confirmation/failure, create, _process_data, _accept_data, *)
(* _flush_recv_buf, _process_eof/_close, close, abort, _close_send,        *)
(* _discard_recv, pause_reading/resume_reading/_start_reading, _cleanup,   *)
(* process_connection_close; connection.py disconnect, abort,              *)
(* _force_close, _cleanup, _process_disconnect, connection_lost.           *)
(* Sides: "c" opens channels, "s" accepts them.  The whole state is one    *)
(* record s so that actions only name what they change.                    *)
(***************************************************************************)
EXTENDS Naturals, Sequences, FiniteSets, TLC

CONSTANTS Chans,        \* channel ids (subset of {1, 2})
          Reject,       \* channels whose open the server application refuses
          MaxOps,       \* budget of application-level operations
          Cuts,         \* budget of transport cuts (0 or 1)
          ConnOps,      \* TRUE: connection-level close / abort operations are enabled
          WithData,     \* TRUE: data / pause / resume operations are enabled
          Win,          \* 0: flow control not modelled (the window is never exhausted);
                        \* n > 0: every channel direction starts with a window of n chunks
          FlowVariant,  \* "none" (as coded) | sensitivity variants:
                        \*   "adj_open_only"  WINDOW_ADJUST refused once the peer has sent EOF
                        \*   "close_forgets"  close() while an EOF waits behind unsent data is not armed
                        \*   "no_credit_closing" (pre-repair, finding F32) data dropped while a close waits
                        \*                    for unsent data is not given back to the peer's window
                        \*   "no_reply_closing"  (pre-repair, finding F28) no reply to a channel request
                        \*                    while a close waits for unsent data
          FailReqOnClose,   \* TRUE: an incoming CLOSE fails outstanding channel requests (repaired code)
          ResolveOnConnCleanup  \* FALSE: sensitivity variant (connection clean-up forgets open waiters)

Sides == {"c", "s"}
Flow == Win > 0
Other(x) == IF x = "c" THEN "s" ELSE "c"
Msg(t, ch) == [t |-> t, ch |-> ch]
Adj(ch, n) == [t |-> "ADJ", ch |-> ch, n |-> n]
Min(a, b) == IF a < b THEN a ELSE b

VARIABLES s, lbl,
          script   \* history: labels of all steps except deferred callbacks (for replay)
vars == <<s, lbl, script>>
view == s
\* for transition-covering script emission: the last label (which carries the
\* pre-state class of the channel it acts on) is part of the state identity
viewL == <<s, lbl>>

PerChan(v) == [x \in Sides |-> [c \in Chans |-> v]]

Init ==
    /\ s = [ ss |-> PerChan("closed"), rs |-> PerChan("closed"),
             reg |-> PerChan(FALSE),          \* channel registered on the connection
             ord |-> [x \in Sides |-> <<>>],  \* ... in registration order (conn._channels is a dict)
             hasSess |-> PerChan(FALSE),      \* a session is attached
             reading |-> PerChan("starting"), \* _recv_paused: "starting" | "reading" | "paused"
             rbufN |-> PerChan(0),            \* chunks buffered in the channel
             swin |-> PerChan(0),             \* _send_window (chunks), meaningful when Flow
             sbufN |-> PerChan(0),            \* chunks waiting in _send_buf for window
             rwin |-> PerChan(0),             \* _recv_window
             closeReq |-> PerChan(FALSE),     \* the application called close() / abort()
             log |-> PerChan(<<>>),           \* session callbacks
             closeEv |-> PerChan(FALSE),      \* channel close event set
             phase |-> [c \in Chans |-> "none"],
             openW |-> [c \in Chans |-> "none"],    \* "none"|"pending"|"ok"|"err"
             reqW |-> [c \in Chans |-> "none"],     \* "none"|"pending"|"ok"|"false"|"err"
             createW |-> [c \in Chans |-> "none"],  \* the create_session() call
             up |-> [x \in Sides |-> TRUE],         \* transport attached
             connClosed |-> [x \in Sides |-> FALSE],
             ownerLost |-> [x \in Sides |-> 0],
             net |-> [x \in Sides |-> <<>>],        \* written by x, not yet received by the peer
             chunk |-> <<"c", 0>>,                  \* messages still handled by the running data_received
             ready |-> <<>>,                        \* deferred callbacks <<side, kind, ch>>
             nops |-> 0, ncuts |-> 0 ]
    /\ lbl = <<"init">> /\ script = <<>>
    /\ TLCSet(7, {})          \* register used by EmitOpCtx (one worker)

Idle == s.ready = <<>> /\ s.chunk[2] = 0
\* packets written on a connection whose transport is gone are dropped
Out(x, msgs) == IF s.up[x] THEN s.net[x] \o msgs ELSE s.net[x]
CloseMsgs(x, ch) == IF s.ss[x][ch] # "closed" /\ s.reg[x][ch] THEN <<Msg("CLOSE", ch)>> ELSE <<>>
Logged(x, ch, names) == IF s.hasSess[x][ch] THEN s.log[x][ch] \o names ELSE s.log[x][ch]
Rep(n, v) == [i \in 1..n |-> v]

\* the context an operation is applied in (part of its label, so that scripts can be chosen
\* to cover every operation in every context): own states and what the peer's send side is doing
Pre(x, ch) == <<s.ss[x][ch], s.rs[x][ch], s.reading[x][ch], s.rbufN[x][ch] > 0, s.sbufN[x][ch] > 0,
                s.ss[Other(x)][ch]>>

Step(new, l) == /\ s' = new /\ lbl' = l
                /\ script' = IF l[1] = "run" THEN script ELSE Append(script, l)
Op(new, l) == Step([new EXCEPT !.nops = s.nops + 1], l)

-----------------------------------------------------------------------------
(* Flow control (channel.py _flush_send_buf, _deliver_data, _process_window_adjust) *)

\* _flush_send_buf on side x: as many buffered chunks as the window allows go out; once the
\* buffer is empty a pending EOF or CLOSE follows
FlushSend(st, x, ch) ==
    LET k == IF Flow THEN Min(st.sbufN[x][ch], st.swin[x][ch]) ELSE st.sbufN[x][ch]
        left == st.sbufN[x][ch] - k
        ss0 == st.ss[x][ch]
        fin == IF left = 0 /\ ss0 = "eof_pending" THEN <<Msg("EOF", ch)>>
               ELSE IF left = 0 /\ ss0 = "close_pending" THEN <<Msg("CLOSE", ch)>> ELSE <<>>
    IN [st EXCEPT !.sbufN[x][ch] = left,
                  !.swin[x][ch] = IF Flow THEN @ - k ELSE @,
                  !.ss[x][ch] = IF left = 0 /\ ss0 = "eof_pending" THEN "eof"
                                ELSE IF left = 0 /\ ss0 = "close_pending" THEN "closed" ELSE ss0,
                  !.net[x] = IF st.up[x] THEN @ \o Rep(k, Msg("DATA", ch)) \o fin ELSE @]

\* n chunks handed to the session one after the other, starting from receive window rw
\* (_deliver_data): <<window afterwards, WINDOW_ADJUST amounts sent>>
RECURSIVE Consume(_, _)
Consume(rw, n) ==
    IF n = 0 \/ ~Flow THEN <<rw, <<>>>>
    ELSE LET r1 == rw - 1 IN
         IF 2 * r1 < Win
         THEN LET rest == Consume(Win, n - 1) IN <<rest[1], <<Win - r1>> \o rest[2]>>
         ELSE Consume(r1, n - 1)
Consumed(st, x, ch, n) ==
    LET c == Consume(st.rwin[x][ch], n) IN
    [st EXCEPT !.rwin[x][ch] = c[1],
               \* (after the own CLOSE nothing more goes out on the channel: _send_chan is None)
               !.net[x] = IF st.up[x] /\ st.ss[x][ch] # "closed"
                          THEN @ \o [i \in 1..Len(c[2]) |-> Adj(ch, c[2][i])] ELSE @]

\* close() / abort() as a state update (also used by create() when the request fails)
CloseT(st, x, ch, how) ==
    LET sent == IF st.ss[x][ch] \in {"close_pending", "closed"} THEN st
                ELSE IF FlowVariant = "close_forgets" /\ how = "close" /\ st.ss[x][ch] = "eof_pending"
                THEN st
                ELSE IF how = "abort"
                THEN \* _close_send: unsent data discarded, CLOSE at once
                     [st EXCEPT !.sbufN[x][ch] = 0, !.ss[x][ch] = "closed",
                                !.net[x] = IF st.up[x] /\ st.reg[x][ch]
                                           THEN Append(@, Msg("CLOSE", ch)) ELSE @]
                ELSE \* CLOSE only after the unsent data
                     FlushSend([st EXCEPT !.ss[x][ch] = "close_pending"], x, ch)
        rs0 == st.rs[x][ch]
    IN \* _discard_recv (only if the receive side is not closed yet): buffer dropped and
       \* _recv_paused = False, even if reading never started
       [sent EXCEPT !.rbufN[x][ch] = 0,
                    !.reading[x][ch] = IF rs0 # "closed" THEN "reading" ELSE @,
                    !.rs[x][ch] = IF rs0 = "close_pending" THEN "closed" ELSE @,
                    !.ready = IF rs0 = "close_pending" THEN Append(@, <<x, "chan", ch>>) ELSE @]

-----------------------------------------------------------------------------
(* Application operations (external; only when the loop is idle) *)

Open(ch) ==
    /\ Idle /\ s.nops < MaxOps /\ s.phase[ch] = "none" /\ s.up["c"]
    /\ Op([s EXCEPT !.phase[ch] = "opening", !.reg["c"][ch] = TRUE, !.ord["c"] = Append(@, ch),
                    !.openW[ch] = "pending", !.createW[ch] = "pending",
                    !.net["c"] = Out("c", <<Msg("OPEN", ch)>>)], <<"open", ch>>)

WriteEOF(x, ch) ==
    /\ Idle /\ s.nops < MaxOps /\ s.ss[x][ch] = "open" /\ s.hasSess[x][ch]
    /\ Op(FlushSend([s EXCEPT !.ss[x][ch] = "eof_pending"], x, ch), <<"weof", x, ch, Pre(x, ch)>>)

WriteData(x, ch) ==
    /\ WithData /\ Idle /\ s.nops < MaxOps /\ s.ss[x][ch] = "open" /\ s.hasSess[x][ch]
    /\ Op(FlushSend([s EXCEPT !.sbufN[x][ch] = @ + 1], x, ch), <<"wdata", x, ch, Pre(x, ch)>>)

Pause(x, ch) ==
    /\ WithData /\ Idle /\ s.nops < MaxOps /\ s.hasSess[x][ch] /\ s.reading[x][ch] = "reading"
    /\ Op([s EXCEPT !.reading[x][ch] = "paused"], <<"pause", x, ch, Pre(x, ch)>>)

\* _flush_recv_buf as a state update on side x, channel ch, given that reading is on
Flushed(st, x, ch) ==
    LET n == st.rbufN[x][ch]
        rs0 == st.rs[x][ch]
        rs1 == IF rs0 = "eof_pending" THEN "eof"
               ELSE IF rs0 = "close_pending" THEN "closed" ELSE rs0
        names == Rep(n, "data_received") \o
                 (IF rs0 = "eof_pending" THEN <<"eof_received">> ELSE <<>>)
    IN Consumed([st EXCEPT !.rbufN[x][ch] = 0, !.rs[x][ch] = rs1,
                           !.log[x][ch] = IF st.hasSess[x][ch] THEN @ \o names ELSE @,
                           !.ready = IF rs0 = "close_pending" THEN Append(@, <<x, "chan", ch>>) ELSE @],
                x, ch, n)

Resume(x, ch) ==
    /\ WithData /\ Idle /\ s.nops < MaxOps /\ s.hasSess[x][ch] /\ s.reading[x][ch] = "paused"
    /\ Op(Flushed([s EXCEPT !.reading[x][ch] = "reading"], x, ch), <<"resume", x, ch, Pre(x, ch)>>)

\* close() / abort(): with nothing buffered for sending they differ only in name.
\* _close_send if still open for sending, then _discard_recv.
Close(x, ch, how) ==
    /\ Idle /\ s.nops < MaxOps /\ s.reg[x][ch] /\ s.hasSess[x][ch]
    /\ s.ss[x][ch] \in {"open", "eof_pending", "eof"} \/ s.rs[x][ch] = "close_pending"
    /\ Op(CloseT([s EXCEPT !.closeReq[x][ch] = TRUE], x, ch, how), <<how, x, ch, Pre(x, ch)>>)

\* conn.close(): close every channel, DISCONNECT, _force_close
ConnClose(x) ==
    /\ ConnOps /\ Idle /\ s.nops < MaxOps /\ s.up[x]
    /\ LET closing == {c \in Chans : s.reg[x][c] /\ s.ss[x][c] \in {"open", "eof_pending", "eof"}
                                     /\ s.sbufN[x][c] = 0}
           held == {c \in Chans : s.reg[x][c] /\ s.ss[x][c] \in {"open", "eof_pending", "eof"}
                                  /\ s.sbufN[x][c] > 0}   \* close(): CLOSE waits for the unsent data
           cp == {c \in Chans : s.reg[x][c] /\ s.rs[x][c] = "close_pending"}
           \* channels are visited in the order they were registered
           oc == SelectSeq(s.ord[x], LAMBDA c : c \in closing)
           ocp == SelectSeq(s.ord[x], LAMBDA c : c \in cp)
           msgs == [i \in 1..Len(oc) |-> Msg("CLOSE", oc[i])] \o
                   <<Msg("DISC", 0), Msg("LOST", 0)>>
           touched == {c \in Chans : s.reg[x][c]}
       IN Op([s EXCEPT !.net[x] = @ \o msgs,
                       !.ss[x] = [c \in Chans |-> IF c \in closing THEN "closed"
                                                   ELSE IF c \in held THEN "close_pending" ELSE @[c]],
                       !.rbufN[x] = [c \in Chans |-> IF c \in touched THEN 0 ELSE @[c]],
                       !.reading[x] = [c \in Chans |-> IF c \in touched /\ s.rs[x][c] # "closed"
                                                       THEN "reading" ELSE @[c]],
                       !.rs[x] = [c \in Chans |-> IF c \in cp THEN "closed" ELSE @[c]],
                       !.up[x] = FALSE,
                       !.ready = @ \o [i \in 1..Len(ocp) |-> <<x, "chan", ocp[i]>>]
                                   \o <<<<x, "conn", 0>>>>],
             <<"connclose", x>>)

\* conn.abort(): no DISCONNECT; the peer sees the stream end
ConnAbort(x) ==
    /\ ConnOps /\ Idle /\ s.nops < MaxOps /\ s.up[x]
    /\ Op([s EXCEPT !.up[x] = FALSE, !.net[x] = Append(@, Msg("LOST", 0)),
                    !.ready = Append(@, <<x, "conn", 0>>)], <<"connabort", x>>)

\* the transport is cut: both ends get connection_lost, nothing in flight arrives
Cut ==
    /\ Idle /\ s.ncuts < Cuts /\ (s.up["c"] \/ s.up["s"])
    /\ Step([s EXCEPT !.up = [x \in Sides |-> FALSE],
                      !.net = [x \in Sides |-> <<>>],
                      !.ready = @ \o (IF s.up["c"] THEN <<<<"c", "conn", 0>>>> ELSE <<>>)
                                  \o (IF s.up["s"] THEN <<<<"s", "conn", 0>>>> ELSE <<>>),
                      !.ncuts = @ + 1], <<"cut">>)

-----------------------------------------------------------------------------
(* Network: k messages written by x reach the peer in one data_received call; *)
(* end-of-stream is a separate read event                                     *)
StartChunk(x, k) ==
    /\ Idle /\ k >= 1 /\ k <= Len(s.net[x])
    /\ k = 1 \/ \A i \in 1..k : s.net[x][i].t # "LOST"
    /\ Step([s EXCEPT !.chunk = <<x, k>>], <<"chunk", x, k>>)

\* a protocol error at y: _force_close
ProtoErr(st, y) == [st EXCEPT !.up[y] = FALSE, !.ready = Append(@, <<y, "conn", 0>>)]

Deliver(x) ==
    /\ s.chunk[1] = x /\ s.chunk[2] > 0 /\ s.net[x] # <<>>
    /\ LET y == Other(x)
           m == IF s.net[x] = <<>> THEN Msg("NONE", 0) ELSE Head(s.net[x])
           ch == m.ch
           t == m.t
           s0 == [s EXCEPT !.net[x] = Tail(@), !.chunk = <<x, s.chunk[2] - 1>>]
           regd == ch \in Chans /\ s.reg[y][ch]
           new ==
             IF ~s.up[y] /\ t # "LOST" THEN s0          \* receiver gone: bytes dropped
             ELSE IF t = "LOST" THEN
                  IF s.up[y] THEN ProtoErr(s0, y) ELSE s0
             ELSE IF t = "DISC" THEN ProtoErr(s0, y)
             ELSE IF t = "OPEN" THEN
                  IF ch \in Reject
                  THEN [s0 EXCEPT !.net[y] = Append(@, Msg("FAIL", ch))]
                  ELSE [s0 EXCEPT !.reg[y][ch] = TRUE, !.ord[y] = Append(@, ch),
                                  !.ready = Append(@, <<y, "finopen", ch>>)]
             ELSE IF t = "CONF" THEN
                  IF s.openW[ch] = "pending" /\ regd
                  THEN [s0 EXCEPT !.openW[ch] = "ok", !.ss[y][ch] = "open", !.rs[y][ch] = "open",
                                  !.swin[y][ch] = Win, !.rwin[y][ch] = Win,
                                  !.ready = Append(@, <<y, "afteropen", ch>>)]
                  ELSE ProtoErr(s0, y)
             ELSE IF t = "FAIL" THEN
                  IF s.openW[ch] = "pending" /\ regd
                  THEN [s0 EXCEPT !.openW[ch] = "err",
                                  !.ready = @ \o <<<<y, "chan", ch>>, <<y, "afteropen", ch>>>>]
                  ELSE ProtoErr(s0, y)
             ELSE IF t = "REQ" THEN
                  \* server: exec request -> session_started, resume_reading (flush)
                  IF regd /\ s.rs[y][ch] \in {"open", "eof_pending", "eof"}
                  THEN LET s1 == [s0 EXCEPT
                                    \* the reply goes out as long as the own CLOSE has not
                                    !.net[y] = IF s.ss[y][ch] = "closed" \/
                                                  (FlowVariant = "no_reply_closing" /\ s.ss[y][ch] = "close_pending")
                                               THEN @ ELSE Append(@, Msg("SUCC", ch)),
                                    !.log[y][ch] = Logged(y, ch, <<"session_started">>),
                                    !.reading[y][ch] = "reading"]
                       IN IF s.reading[y][ch] = "starting" THEN Flushed(s1, y, ch) ELSE s1
                  ELSE ProtoErr(s0, y)
             ELSE IF t = "SUCC" THEN
                  IF regd /\ s.reqW[ch] = "pending"
                  THEN [s0 EXCEPT !.reqW[ch] = "ok", !.ready = Append(@, <<y, "afterreq", ch>>)]
                  ELSE ProtoErr(s0, y)
             ELSE IF t = "DATA" THEN
                  IF regd /\ s.rs[y][ch] = "open"
                  THEN IF s.ss[y][ch] = "closed" THEN s0     \* dropped: channel closed by the session
                       ELSE IF s.ss[y][ch] = "close_pending"
                       THEN \* dropped as well, but the own CLOSE is still waiting for window: the
                            \* bytes are credited back, or two channels closing at the same time
                            \* with exhausted windows would wait for each other for ever
                            IF Flow /\ FlowVariant # "no_credit_closing"
                            THEN [s0 EXCEPT !.net[y] = Append(@, Adj(ch, 1))] ELSE s0
                       ELSE IF s.reading[y][ch] = "reading"
                       THEN Consumed([s0 EXCEPT !.log[y][ch] = Logged(y, ch, <<"data_received">>)],
                                     y, ch, 1)
                       ELSE [s0 EXCEPT !.rbufN[y][ch] = @ + 1]
                  ELSE ProtoErr(s0, y)
             ELSE IF t = "ADJ" THEN
                  \* _process_window_adjust: about OUR sending direction, so legal whatever
                  \* the peer has done to its own (EOF sent, still buffered here or not)
                  IF regd /\ s.rs[y][ch] \in (IF FlowVariant = "adj_open_only" THEN {"open"}
                                               ELSE {"open", "eof_pending", "eof"})
                  THEN FlushSend([s0 EXCEPT !.swin[y][ch] = @ + m.n], y, ch)
                  ELSE ProtoErr(s0, y)
             ELSE IF t = "EOF" THEN
                  IF regd /\ s.rs[y][ch] = "open"
                  THEN IF s.rbufN[y][ch] = 0 /\ s.reading[y][ch] # "starting"
                       THEN [s0 EXCEPT !.rs[y][ch] = "eof",
                                       !.log[y][ch] = Logged(y, ch, <<"eof_received">>)]
                       ELSE [s0 EXCEPT !.rs[y][ch] = "eof_pending"]
                  ELSE ProtoErr(s0, y)
             ELSE IF t = "CLOSE" THEN
                  IF regd /\ s.rs[y][ch] \in {"open", "eof_pending", "eof"}
                  THEN \* _close_send; close_pending; flush
                       \* requests still outstanding are failed (no reply can follow a CLOSE);
                       \* FailReqOnClose = FALSE is the pre-repair behaviour
                       LET sA == [s0 EXCEPT !.net[y] = @ \o CloseMsgs(y, ch),
                                            !.ss[y][ch] = "closed", !.sbufN[y][ch] = 0]
                           s1 == IF FailReqOnClose /\ y = "c" /\ s.reqW[ch] = "pending"
                                 THEN [sA EXCEPT !.reqW[ch] = "false",
                                                 !.ready = Append(@, <<"c", "afterreq", ch>>)]
                                 ELSE sA
                       IN IF s.rbufN[y][ch] = 0
                          THEN [s1 EXCEPT !.rs[y][ch] = "closed",
                                          !.ready = Append(@, <<y, "chan", ch>>)]
                          ELSE [s1 EXCEPT !.rs[y][ch] = "close_pending"]
                  ELSE ProtoErr(s0, y)
             ELSE s0
       IN Step(new, <<"deliver", x, t, ch>>)

-----------------------------------------------------------------------------
(* Deferred callbacks and task continuations (FIFO) *)

\* waiters of channel ch on the client that a clean-up resolves, and the
\* continuation of create() that this wakes up
WakeCreate(st, ch) ==
    IF st.openW[ch] = "pending"
    THEN [st EXCEPT !.openW[ch] = "err", !.ready = Append(@, <<"c", "afteropen", ch>>)]
    ELSE IF st.reqW[ch] = "pending"
    THEN [st EXCEPT !.reqW[ch] = "false", !.ready = Append(@, <<"c", "afterreq", ch>>)]
    ELSE st

\* SSHChannel._cleanup
ChanCleanup(st, x, ch) ==
    LET s1 == [st EXCEPT !.log[x][ch] = IF st.hasSess[x][ch] THEN Append(@, "connection_lost") ELSE @,
                         !.hasSess[x][ch] = FALSE, !.closeEv[x][ch] = TRUE,
                         !.reg[x][ch] = FALSE]
    IN IF x = "c" THEN WakeCreate(s1, ch) ELSE s1

RunReady ==
    /\ s.ready # <<>> /\ s.chunk[2] = 0
    /\ LET e == IF s.ready = <<>> THEN <<"c", "none", 0>> ELSE Head(s.ready)
           x == e[1] k == e[2] ch == e[3]
           s0 == [s EXCEPT !.ready = Tail(@)]
           new ==
             IF k = "finopen" THEN
                \* server _finish_open_request
                IF s.reg[x][ch] /\ ~s.connClosed[x]
                THEN [s0 EXCEPT !.net[x] = Out(x, <<Msg("CONF", ch)>>),
                                !.ss[x][ch] = "open", !.rs[x][ch] = "open",
                                !.swin[x][ch] = Win, !.rwin[x][ch] = Win,
                                !.hasSess[x][ch] = TRUE,
                                !.log[x][ch] = Append(@, "connection_made")]
                ELSE [s0 EXCEPT !.ready = Append(@, <<x, "chan", ch>>)]
             ELSE IF k = "afteropen" THEN
                \* client create() resumes after _open()
                IF s.openW[ch] = "ok"
                THEN LET s1 == [s0 EXCEPT !.hasSess[x][ch] = TRUE,
                                          !.log[x][ch] = Append(@, "connection_made")]
                     IN IF s.reg[x][ch] /\ s.ss[x][ch] # "closed"
                        THEN [s1 EXCEPT !.reqW[ch] = "pending", !.phase[ch] = "requesting",
                                        !.net[x] = Out(x, <<Msg("REQ", ch)>>)]
                        ELSE \* _send_chan is gone: request "fails", close(), ChannelOpenError
                             [s1 EXCEPT !.reqW[ch] = "false", !.phase[ch] = "failed",
                                        !.createW[ch] = "err",
                                        !.rbufN[x][ch] = 0,
                                        !.reading[x][ch] = IF s.reg[x][ch] /\ s.rs[x][ch] # "closed" THEN "reading" ELSE @,
                                        !.rs[x][ch] = IF @ = "close_pending" THEN "closed" ELSE @,
                                        !.ready = IF s.rs[x][ch] = "close_pending" /\ s.reg[x][ch]
                                                  THEN Append(@, <<x, "chan", ch>>) ELSE @]
                ELSE [s0 EXCEPT !.phase[ch] = "failed", !.createW[ch] = "err"]
             ELSE IF k = "afterreq" THEN
                IF s.reqW[ch] = "ok"
                THEN [s0 EXCEPT !.phase[ch] = "started", !.createW[ch] = "ok",
                                !.log[x][ch] = Logged(x, ch, <<"session_started">>),
                                !.ready = Append(@, <<x, "startread", ch>>)]
                ELSE \* request failed: close(), ChannelOpenError
                     LET s1 == [s0 EXCEPT !.phase[ch] = "failed", !.createW[ch] = "err"]
                     IN IF s.reg[x][ch] THEN CloseT(s1, x, ch, "close")
                        ELSE [s1 EXCEPT !.rbufN[x][ch] = 0]
             ELSE IF k = "startread" THEN
                \* _start_reading: leave 'starting' and flush
                IF s.reading[x][ch] = "starting"
                THEN Flushed([s0 EXCEPT !.reading[x][ch] = "reading"], x, ch)
                ELSE s0
             ELSE IF k = "chan" THEN ChanCleanup(s0, x, ch)
             ELSE IF k = "conn" THEN
                \* SSHConnection._cleanup: every registered channel is closed for
                \* sending and cleaned up at once, owner notified
                LET chs == {c \in Chans : s.reg[x][c]}
                    s1 == [s0 EXCEPT !.connClosed[x] = TRUE,
                                     !.ownerLost[x] = IF s.connClosed[x] THEN @ ELSE @ + 1,
                                     !.ss[x] = [c \in Chans |-> IF c \in chs THEN "closed" ELSE @[c]],
                                     !.sbufN[x] = [c \in Chans |-> IF c \in chs THEN 0 ELSE @[c]],
                                     !.log[x] = [c \in Chans |-> IF c \in chs /\ s.hasSess[x][c]
                                                                 THEN Append(@[c], "connection_lost") ELSE @[c]],
                                     !.hasSess[x] = [c \in Chans |-> IF c \in chs THEN FALSE ELSE @[c]],
                                     !.closeEv[x] = [c \in Chans |-> @[c] \/ c \in chs],
                                     !.reg[x] = [c \in Chans |-> FALSE]]
                    w1 == IF x = "c" /\ 1 \in chs /\ (ResolveOnConnCleanup \/ s.openW[1] # "pending")
                          THEN WakeCreate(s1, 1) ELSE s1
                    w2 == IF x = "c" /\ 2 \in chs /\ (ResolveOnConnCleanup \/ s.openW[2] # "pending")
                          THEN WakeCreate(w1, 2) ELSE w1
                IN w2
             ELSE s0
       IN Step(new, <<"run", x, k, ch>>)

Next ==
    \/ RunReady
    \/ \E ch \in Chans : Open(ch)
    \/ \E x \in Sides, ch \in Chans :
          \/ WriteEOF(x, ch) \/ Close(x, ch, "close") \/ Close(x, ch, "abort")
          \/ WriteData(x, ch) \/ Pause(x, ch) \/ Resume(x, ch)
    \/ \E x \in Sides : ConnClose(x) \/ ConnAbort(x) \/ Deliver(x)
    \/ \E x \in Sides, k \in 1..3 : StartChunk(x, k)
    \/ Cut

Spec == Init /\ [][Next]_vars
LiveSpec == Spec /\ WF_vars(RunReady)
                 /\ \A x \in Sides : WF_vars(Deliver(x)) /\ WF_vars(StartChunk(x, 1))

-----------------------------------------------------------------------------
(* Properties (C09) *)
Count(q, v) == Cardinality({i \in 1..Len(q) : q[i] = v})
LastIs(q, v) == q # <<>> /\ q[Len(q)] = v

CloseOnceAndLast == \A x \in Sides, ch \in Chans :
    /\ Count(s.log[x][ch], "connection_lost") <= 1
    /\ Count(s.log[x][ch], "connection_lost") = 1 => LastIs(s.log[x][ch], "connection_lost")
    /\ s.ownerLost[x] <= 1
LegalOrder == \A x \in Sides, ch \in Chans :
    /\ s.log[x][ch] # <<>> => s.log[x][ch][1] = "connection_made"
    /\ Count(s.log[x][ch], "connection_made") <= 1
    /\ Count(s.log[x][ch], "session_started") <= 1
    /\ Count(s.log[x][ch], "eof_received") <= 1
    /\ \A i \in 1..Len(s.log[x][ch]) : s.log[x][ch][i] = "eof_received" =>
          \A j \in (i+1)..Len(s.log[x][ch]) : s.log[x][ch][j] # "data_received"
NoChannelLeft == \A x \in Sides : s.connClosed[x] => \A ch \in Chans : ~s.reg[x][ch]

Quiescent == s.ready = <<>> /\ s.chunk[2] = 0 /\ \A x \in Sides : s.net[x] = <<>>
AllWaitersResolved ==
    Quiescent =>
      /\ \A ch \in Chans : s.createW[ch] = "pending" => (~s.connClosed["c"] /\ ~s.connClosed["s"])
      /\ \A ch \in Chans : s.openW[ch] = "pending" => (~s.connClosed["c"] /\ ~s.connClosed["s"])
      /\ \A x \in Sides : s.connClosed[x] =>
            \A ch \in Chans : (s.log[x][ch] # <<>> => s.closeEv[x][ch])
\* at quiescence create_session() has always returned or raised
CreateDecided == Quiescent => \A ch \in Chans : s.createW[ch] # "pending"
MadeImpliesLost ==
    Quiescent => \A x \in Sides, ch \in Chans :
        (s.connClosed[x] /\ Count(s.log[x][ch], "connection_made") = 1)
            => Count(s.log[x][ch], "connection_lost") = 1
Terminates == \A x \in Sides : (~s.up[x]) ~> s.connClosed[x]

\* emits complete behaviours (all operations used, everything delivered) while
\* TLC simulates; always TRUE
EmitScript == (Quiescent /\ s.nops >= 3) => PrintT(ToString(<<"SCRIPT", script, s>>))

\* emits, for every application operation IN EVERY CONTEXT (the label carries the channel states
\* on both sides), the shortest behaviour that ends with it - including contexts that only exist
\* in passing, which no quiescent final state remembers (run with one worker; always TRUE)
OpNames == {"weof", "wdata", "pause", "resume", "close", "abort", "connclose", "connabort"}
EmitOpCtx == (lbl[1] \in OpNames /\ lbl \notin TLCGet(7)) =>
                 /\ TLCSet(7, TLCGet(7) \cup {lbl})
                 /\ PrintT(ToString(<<"SCRIPT", script, s>>))

\* witnesses
NeverStarted == \A ch \in Chans : s.phase[ch] # "started"
NeverErr == \A ch \in Chans : s.createW[ch] # "err"
\* no protocol error between two honest endpoints
HonestNoError == (Cuts = 0 /\ ~ConnOps) => \A x \in Sides : s.up[x]
\* flow control never wedges: at quiescence unsent data (and the EOF / CLOSE queued behind it)
\* is only ever waiting for a peer that is not consuming
NoWedge == Quiescent => \A x \in Sides, ch \in Chans :
    (s.reg[x][ch] /\ (s.sbufN[x][ch] > 0 \/ s.ss[x][ch] \in {"eof_pending", "close_pending"})) =>
        LET y == Other(x) IN
        \/ ~s.up[x] \/ ~s.up[y]
        \/ s.reading[y][ch] # "reading"
        \* (a peer that is closing no longer consumes; what IT still has to send is CloseCompletes' business)
        \/ s.ss[y][ch] \in {"close_pending", "closed"} \/ ~s.reg[y][ch]
\* a close() is carried out: once nothing is in flight the CLOSE has gone out, unless the unsent
\* data in front of it is waiting for a peer that is not consuming
Consuming(y, ch) == s.reg[y][ch] /\ \/ s.reading[y][ch] = "reading" /\ s.ss[y][ch] \notin {"close_pending", "closed"}
                                    \/ s.ss[y][ch] = "close_pending"   \* drops, but credits
CloseCompletes == Quiescent => \A x \in Sides, ch \in Chans :
    (s.closeReq[x][ch] /\ s.reg[x][ch] /\ s.up[x] /\ s.up[Other(x)] /\ Consuming(Other(x), ch))
        => s.ss[x][ch] = "closed"
NeverSendPending == \A x \in Sides, ch \in Chans : s.ss[x][ch] \notin {"eof_pending", "close_pending"}
NeverAdjAfterEof == ~(lbl[1] = "deliver" /\ lbl[3] = "ADJ" /\ s.rs[Other(lbl[2])][lbl[4]] \in {"eof", "eof_pending"})
NeverClosePending == \A x \in Sides, ch \in Chans : s.rs[x][ch] # "close_pending"
=============================================================================
