---- MODULE MC_c13_fs_full_inv ----
EXTENDS PathConfineFS
c_ReqPaths == {<<"a">>, <<"b">>, <<"a", "b">>, <<"a", "a">>, <<"b", "a">>}
c_Targets == {<<"..">>, <<"a">>, <<"..", "..">>}
====
