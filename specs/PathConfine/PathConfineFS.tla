--------------------------- MODULE PathConfineFS ---------------------------
(***************************************************************************)
(* C13, part (ii): a chroot'ed SFTP server processing SEQUENCES of         *)
(* requests over a tiny file system with directories, files and symbolic   *)
(* links.  Only the client's own requests create state (no outward link is *)
(* pre-populated).                                                         *)
(*                                                                         *)
(* Modelled as written in asyncssh/sftp.py (class SFTPServer):             *)
(*   every operation maps its path arguments textually (map_path) and      *)
(*   hands them to the kernel, which resolves symbolic links;              *)
(*   symlink() rewrites the target at creation time only (7788-7818):      *)
(*   an absolute target is mapped under the root; a relative one is kept   *)
(*   unless realpath() of the textually confined target differs from       *)
(*   realpath() of the target as the kernel would see it, in which case it *)
(*   is replaced by relpath().                                             *)
(*                                                                         *)
(* Touched(request) = for every system call the server issues, the         *)
(* location each path argument resolves to (kernel walk: final link        *)
(* followed or not as the call does; the walk stops at the first error).   *)
(* lstat/readlink calls made inside os.path.realpath() are not counted     *)
(* (a server that resolved and confined every path would need them too).   *)
(***************************************************************************)
EXTENDS PathOps

CONSTANTS
    Names,      \* names that may exist below the root (and in Top)
    Depth,      \* maximal depth of a node below the root
    ReqPaths,   \* client path strings used in requests
    Targets,    \* symlink target strings
    Ops,        \* subset of AllOps
    MaxNodes,   \* bound on nodes created by the client
    MaxReq,     \* bound on the number of requests
    InitTrees,  \* set of initial trees (functions location -> node; dirs/files only)
    MapRule,    \* "asis" | "strip"
    Rewrite,    \* "prefix" (sensitivity: string prefix test) |
                \* "asis" | "realdir" (proposed repair: judge the target from the
                \* directory the link really lands in) | "none" (sensitivity)
    Fuel,       \* symlink expansions per walk before ELOOP
    EmitEsc,    \* TRUE: print the request history of every escaping transition
    Bias,       \* "all" | "ok": only requests that succeed or escape |
                \* "chg": only requests that change the file system or escape
    RandK,      \* (simulation, SimSpec) random candidate requests per step
    NormPaths,  \* the members of ReqPaths in normal form: in a two-path request
                \* at most one path is spelled in a non-normal way at a time
    EmitTr      \* TRUE: print every transition (history, resulting tree)

AllOps == {"open_r", "open_w", "stat", "lstat", "mkdir", "rmdir", "remove",
           "rename", "posix_rename", "symlink", "link", "readlink",
           "realpath", "opendir", "setstat"}
TwoPath == {"rename", "posix_rename", "link"}

VARIABLES
    fs,     \* location -> node, for the locations that exist
    n,      \* requests processed
    esc,    \* the last request touched a location outside the root
    lbl,    \* last request and its predicted outcome (for replay)
    hist,   \* all requests so far
    itree   \* the initial tree (constant along a behaviour; for replay)

vars == <<fs, n, esc, lbl, hist, itree>>
view == <<fs, n, esc>>
viewfs == <<fs, esc>>        \* script generation: every file-system shape once

(* The outside of the root is a set of two nodes: a sibling whose NAME     *)
(* shares a prefix with the root's ("Rx" next to "R": share / share-archive, *)
(* user1 / user10) and an unrelated one ("U").  Both exist and are          *)
(* directories; they are reachable only through escape-shaped targets.      *)
SibLocs == {Append(Top, "Rx"), Append(Top, "U")}
RootPrefixNames == {"R", "Rx"}      \* names that start with the root's name
Base == (<<>> :> DirNode) @@ (Top :> DirNode) @@ (RootLoc :> DirNode) @@
        [l \in SibLocs |-> DirNode]
Universe == {RootLoc \o s : s \in SeqsUpTo(Names, 1, Depth)} \cup
            {Top \o <<x>> : x \in Names} \cup
            {Append(l, x) : l \in SibLocs, x \in Names}
Fixed == {<<>>, Top, RootLoc} \cup SibLocs

MP(p) == MapStr(p, MapRule)
W(f, s, follow) == Walk(f, <<>>, s, follow, TRUE, Fuel)
Real(f, s) == Walk(f, <<>>, s, TRUE, FALSE, Fuel).loc     \* os.path.realpath
Kind(f, w) == IF w.err = "ok" THEN Node(f, w.loc).k ELSE "none"

NextIno(f) == 1 + Cardinality({f[l].ino : l \in DOMAIN f})  \* > every ino in use
                                                            \* (inos are 0..k after Canon)
(* canonical inode numbers: rank by the smallest location carrying them *)
LocLess(a, b) == \/ Len(a) < Len(b)
                 \/ Len(a) = Len(b) /\ \E i \in 1..Len(a) :
                        /\ \A j \in 1..(i-1) : a[j] = b[j]
                        /\ a[i] # b[i]
                        /\ a[i] = CHOOSE x \in {a[i], b[i]} : TRUE
Canon(f) ==
    LET inos == {f[l].ino : l \in DOMAIN f} \ {0}
        Holders(i) == {l \in DOMAIN f : f[l].ino = i}
        Rep(i) == CHOOSE l \in Holders(i) : \A m \in Holders(i) : m = l \/ LocLess(l, m)
        Rank(i) == Cardinality({j \in inos : j = i \/ LocLess(Rep(j), Rep(i))})
    IN [l \in DOMAIN f |-> IF f[l].ino = 0 THEN f[l]
                           ELSE [f[l] EXCEPT !.ino = Rank(f[l].ino)]]

Res(st, touched, f) == [st |-> st, touched |-> touched, fs |-> f]

-----------------------------------------------------------------------------
(* system calls on mapped strings *)

SysStat(f, s, follow) ==
    LET w == W(f, s, follow) IN
    Res(IF Exists(f, w) THEN "ok" ELSE "err", {w.loc}, f)

SysOpenR(f, s) ==
    LET w == W(f, s, TRUE) IN
    Res(IF Exists(f, w) /\ Kind(f, w) = "file" THEN "ok" ELSE "err", {w.loc}, f)

SysOpenW(f, s) ==      \* O_WRONLY | O_CREAT | O_TRUNC
    LET w == W(f, s, TRUE)
        k == Kind(f, w) IN
    IF w.err # "ok" \/ w.dirref \/ k \in {"dir", "link"} THEN Res("err", {w.loc}, f)
    ELSE IF k = "file" THEN Res("ok", {w.loc}, f)
    ELSE Res("ok", {w.loc},
             f @@ (w.loc :> [k |-> "file", t |-> <<>>, ino |-> NextIno(f)]))

SysMkdir(f, s) ==
    LET w == W(f, s, FALSE) IN
    IF w.err # "ok" \/ Exists(f, w) THEN Res("err", {w.loc}, f)
    ELSE Res("ok", {w.loc}, f @@ (w.loc :> DirNode))

SysRmdir(f, s) ==
    LET w == W(f, s, FALSE) IN
    IF w.err = "ok" /\ ~w.dirref /\ w.loc \notin Fixed /\ Kind(f, w) = "dir"
       /\ Children(f, w.loc) = {}
    THEN Res("ok", {w.loc}, Remove(f, {w.loc}))
    ELSE Res("err", {w.loc}, f)

SysUnlink(f, s) ==
    LET w == W(f, s, FALSE) IN
    IF w.err = "ok" /\ ~w.dirref /\ Kind(f, w) \in {"file", "link"}
    THEN Res("ok", {w.loc}, Remove(f, {w.loc}))
    ELSE Res("err", {w.loc}, f)

Subtree(f, l) == {m \in DOMAIN f : Under(l, m)}
Move(f, from, to) ==
    LET moved == Subtree(f, from)
        g == Remove(f, moved \cup Subtree(f, to))
        Dst(m) == to \o SubSeq(m, Len(from) + 1, Len(m))
    IN g @@ [d \in {Dst(m) : m \in moved} |->
                f[CHOOSE m \in moved : Dst(m) = d]]

SysRename(f, so, sn) ==
    LET wo == W(f, so, FALSE)
        wn == W(f, sn, FALSE)
        ko == Kind(f, wo)
        kn == Kind(f, wn)
        t  == {wo.loc, wn.loc} IN
    IF wo.err # "ok" \/ wn.err # "ok" \/ ko = "none" THEN Res("err", t, f)
    ELSE IF wo.loc = wn.loc THEN Res("ok", t, f)          \* same entry: no-op
    ELSE IF wo.dirref \/ wn.dirref \/ wo.loc \in Fixed \/ wn.loc \in Fixed
         THEN Res("err", t, f)
    ELSE IF ko # "dir" /\ kn \in {"file", "link"} /\ f[wo.loc].ino = f[wn.loc].ino
         THEN Res("ok", t, f)                      \* two links to one inode: no-op
    ELSE IF ko = "dir" THEN
         IF Under(wo.loc, wn.loc) \/ kn \in {"file", "link"}
            \/ (kn = "dir" /\ Children(f, wn.loc) # {})
         THEN Res("err", t, f)
         ELSE Res("ok", t, Move(f, wo.loc, wn.loc))
    ELSE IF kn = "dir" THEN Res("err", t, f)
    ELSE Res("ok", t, Move(f, wo.loc, wn.loc))

SysLink(f, so, sn) ==
    LET wo == W(f, so, FALSE)          \* link(2) does not follow the source
        wn == W(f, sn, FALSE)
        t  == {wo.loc, wn.loc} IN
    IF wo.err # "ok" \/ wn.err # "ok" \/ wo.dirref \/ wn.dirref
       \/ Kind(f, wo) \notin {"file", "link"} \/ Exists(f, wn)
    THEN Res("err", t, f)
    ELSE Res("ok", t, f @@ (wn.loc :> f[wo.loc]))

SysSymlink(f, target, sn) ==
    LET wn == W(f, sn, FALSE) IN
    IF wn.err # "ok" \/ Exists(f, wn) \/ target = <<"">> THEN Res("err", {wn.loc}, f)
    ELSE Res("ok", {wn.loc},
             f @@ (wn.loc :> [k |-> "link", t |-> target, ino |-> NextIno(f)]))

(* run b after a unless a failed *)
Then(a, b) == IF a.st = "err" THEN a
              ELSE Res(b.st, a.touched \cup b.touched, b.fs)

-----------------------------------------------------------------------------
(* SFTPServer operations as written *)

SymTarget(f, old, new) ==
    IF Rewrite = "none" THEN old
    ELSE IF IsAbs(old) THEN MP(old)
    ELSE IF Rewrite = "prefix" THEN
         \* (sensitivity) confinement decided by a string prefix test without a
         \* trailing separator: realpath(abspath2).startswith(chroot)
         LET ap1 == MP(Join(Dirname(new), old))
             rnd == <<"">> \o Real(f, Dirname(MP(new)))
             r2 == Real(f, Join(IF rnd = <<"">> THEN <<"", "">> ELSE rnd, old)) IN
         IF ~(Len(r2) >= 2 /\ r2[1] = "T" /\ r2[2] \in RootPrefixNames)
         THEN RelPath(ap1, IF rnd = <<"">> THEN <<"", "">> ELSE rnd) ELSE old
    ELSE IF Rewrite = "realdir" THEN
         LET ap1 == MP(Join(Dirname(new), old))
             rnd == <<"">> \o Real(f, Dirname(MP(new)))   \* realpath(dirname(mapped new))
             ap2 == Join(IF rnd = <<"">> THEN <<"", "">> ELSE rnd, old) IN
         IF Real(f, ap1) # Real(f, ap2)
         THEN RelPath(ap1, IF rnd = <<"">> THEN <<"", "">> ELSE rnd) ELSE old
    ELSE LET newdir == Dirname(new)
             ap1 == MP(Join(newdir, old))
             mnd == MP(newdir)
             ap2 == Join(mnd, old) IN
         IF Real(f, ap1) # Real(f, ap2) THEN RelPath(ap1, mnd) ELSE old

Do(f, op, p, q) ==
    CASE op = "open_r"  -> SysOpenR(f, MP(p))
      [] op = "open_w"  -> SysOpenW(f, MP(p))
      [] op = "stat"    -> SysStat(f, MP(p), TRUE)
      [] op = "setstat" -> SysStat(f, MP(p), TRUE)             \* chmod(path)
      [] op = "lstat"   -> SysStat(f, MP(p), FALSE)
      [] op = "readlink" -> LET w == W(f, MP(p), FALSE) IN
                            Res(IF Kind(f, w) = "link" /\ ~w.dirref THEN "ok" ELSE "err",
                                {w.loc}, f)
      [] op = "realpath" -> Res("ok", {}, f)
      [] op = "mkdir"   -> SysMkdir(f, MP(p))
      [] op = "rmdir"   -> SysRmdir(f, MP(p))
      [] op = "remove"  -> SysUnlink(f, MP(p))
      [] op = "opendir" ->                  \* lstat(p/.), lstat(p/..), scandir(p)
            LET a == SysStat(f, MP(Join(p, <<".">>)), FALSE)
                b == SysStat(f, MP(Join(p, <<"..">>)), FALSE)
                w == W(f, MP(p), TRUE)
                c == Res(IF Exists(f, w) /\ Kind(f, w) = "dir" THEN "ok" ELSE "err",
                         {w.loc}, f)
            IN Then(a, Then(b, c))
      [] op = "rename"  ->                  \* os.path.exists(new), os.rename
            LET e == SysStat(f, MP(q), TRUE) IN
            IF e.st = "ok" THEN Res("err", e.touched, f)
            ELSE LET r == SysRename(f, MP(p), MP(q)) IN
                 Res(r.st, e.touched \cup r.touched, r.fs)
      [] op = "posix_rename" -> SysRename(f, MP(p), MP(q))
      [] op = "link"    -> SysLink(f, MP(p), MP(q))
      [] op = "symlink" -> SysSymlink(f, SymTarget(f, p, q), MP(q))

-----------------------------------------------------------------------------
(* initial trees (directories and files only) *)
R1(x)    == RootLoc \o <<x>>
R2(x, y) == RootLoc \o <<x, y>>
FileNode(i) == [k |-> "file", t |-> <<>>, ino |-> i]
TreeEmpty == [l \in {} |-> DirNode]
TreeA     == (R1("a") :> DirNode)
TreeAB    == (R1("a") :> DirNode) @@ (R2("a", "b") :> FileNode(1)) @@ (R1("b") :> FileNode(2))
TreeAA    == (R1("a") :> DirNode) @@ (R2("a", "b") :> DirNode)
TreesSmall == {TreeEmpty}
TreesAll   == {TreeEmpty, TreeA, TreeAB, TreeAA}

Init ==
    /\ itree \in InitTrees
    /\ fs = Canon(Base @@ itree)
    /\ n = 0 /\ esc = FALSE
    /\ lbl = <<"init">> /\ hist = <<>>

Created(f) == DOMAIN f \ Fixed

Step(op, p, q) ==
    LET r == Do(fs, op, p, q)
        g == IF r.fs = fs THEN fs ELSE Canon(r.fs) IN
    /\ Bias = "ok" => (r.st = "ok" \/ \E l \in r.touched : ~Under(RootLoc, l))
    /\ Bias = "chg" => (g # fs \/ \E l \in r.touched : ~Under(RootLoc, l))
    /\ Created(g) \subseteq Universe
    /\ Cardinality(Created(g)) <= MaxNodes
    /\ IF g # fs /\ op \in {"symlink", "rename", "posix_rename", "link"} /\ HasLoop(g, Fuel)
       THEN \* not explored further (ELOOP is not modelled), but the request is
            \* handed to the harness: it must not escape either
            PrintT(<<"LOOP", Append(hist, <<op, p, q>>), itree>>) /\ FALSE
       ELSE TRUE
    /\ fs' = g
    /\ n' = n + 1
    /\ esc' = \E l \in r.touched : ~Under(RootLoc, l)
    /\ lbl' = <<op, p, q, r.st, esc'>>
    /\ hist' = Append(hist, <<op, p, q>>)
    /\ UNCHANGED itree
    /\ (EmitEsc /\ esc' => PrintT(<<"ESC", hist', itree>>))
    /\ (EmitTr => PrintT(<<"TR", hist', itree, g, esc'>>))

Next ==
    /\ n < MaxReq /\ ~esc
    /\ \/ \E op \in Ops \ (TwoPath \cup {"symlink"}), p \in ReqPaths : Step(op, p, <<"">>)
       \/ \E op \in Ops \cap TwoPath, p \in ReqPaths, q \in ReqPaths :
              (p \in NormPaths \/ q \in NormPaths) /\ Step(op, p, q)
       \/ "symlink" \in Ops /\ \E p \in Targets, q \in ReqPaths : Step("symlink", p, q)

Spec == Init /\ [][Next]_vars

(* Generator for -simulate: instead of enumerating every request at every  *)
(* step, draw RandK random requests (same Step relation).                  *)
RandNext ==
    /\ n < MaxReq /\ ~esc
    /\ \E i \in 1..RandK :
         \E op \in {RandomElement(Ops)} :
         \E p \in {RandomElement(IF op = "symlink" THEN Targets ELSE ReqPaths)} :
         \E q \in {RandomElement(ReqPaths)} :
            Step(op, p, IF op \in TwoPath \cup {"symlink"} THEN q ELSE <<"">>)
SimSpec == Init /\ [][RandNext]_vars

-----------------------------------------------------------------------------
(* C13, first sentence *)
AllTouchedUnderRoot == ~esc

TypeOK ==
    /\ \A l \in DOMAIN fs : fs[l].k \in {"dir", "file", "link"}
    /\ \A l \in DOMAIN fs \ {<<>>} : Node(fs, Parent(l)).k = "dir"

(* Script generation ("one script per reachable file-system shape"): with  *)
(* VIEW viewfs and Bias = "chg" breadth-first search keeps, for every        *)
(* reachable fs, one shortest history of state-changing requests.  For each *)
(* of them the table gives the predicted outcome of the probe battery: the  *)
(* requests (through every symbolic link below the root, and one name       *)
(* beyond it) that would touch a location outside the root.                 *)
UseOps == {"open_r", "open_w", "stat", "lstat", "readlink", "remove", "rmdir",
           "realpath", "opendir", "setstat", "mkdir"}
LinkLocs(f) == {l \in DOMAIN f : f[l].k = "link" /\ Under(RootLoc, l) /\ l # RootLoc}
ClientPath(l) == SubSeq(l, 3, Len(l))
UsePaths(f) == {ClientPath(l) : l \in LinkLocs(f)} \cup
               {Append(ClientPath(l), "a") : l \in LinkLocs(f)}
EscSet(f) == {<<op, p>> \in UseOps \X UsePaths(f) :
                 \E l \in Do(f, op, p, <<"">>).touched : ~Under(RootLoc, l)}
StateTable == PrintT(<<"ST", hist, itree, fs, esc, EscSet(fs)>>)

(* vacuity witnesses (each must be violated = the situation is reachable) *)
NeverLink  == \A l \in DOMAIN fs : fs[l].k # "link"
NeverMoved == ~(lbl[1] \in {"rename", "posix_rename"} /\ lbl[4] = "ok")
=============================================================================
