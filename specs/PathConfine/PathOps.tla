------------------------------ MODULE PathOps ------------------------------
(***************************************************************************)
(* Path algebra shared by the PathConfine specifications.                  *)
(*                                                                         *)
(* A path STRING is represented by the sequence obtained by splitting it   *)
(* at "/" (Python's str.split('/')), which is a bijection between strings  *)
(* and non-empty sequences of slash-free components:                       *)
(*     "a/b" = <<"a","b">>     "/a" = <<"","a">>      "//a" = <<"","","a">> *)
(*     ""    = <<"">>          "/"  = <<"","">>       "a/"  = <<"a","">>    *)
(*                                                                         *)
(* A LOCATION is a place in the real file system: the sequence of names    *)
(* from the real "/" (no "", ".", ".." and no symbolic link in it).        *)
(*     <<>> = "/"    Top = <<"T">> = the temporary area of a run            *)
(*     RootLoc = <<"T","R">> = the chroot / DestLoc = <<"T","D">> = the     *)
(*     download destination.                                               *)
(*                                                                         *)
(* Transcribed from CPython's posixpath (join, normpath, dirname, relpath, *)
(* realpath) and from asyncssh/sftp.py SFTPServer.map_path.                *)
(***************************************************************************)
EXTENDS Naturals, Sequences, FiniteSets, TLC

Last(s)  == s[Len(s)]
Front(s) == SubSeq(s, 1, Len(s) - 1)
SeqsUpTo(S, lo, hi) == UNION {[1..n -> S] : n \in lo..hi}

Top     == <<"T">>
RootLoc == <<"T", "R">>
DestLoc == <<"T", "D">>
RootStr == <<"", "T", "R">>          \* the string "/T/R"
DestStr == <<"", "T", "D">>          \* the string "/T/D"

Under(r, l) == Len(l) >= Len(r) /\ SubSeq(l, 1, Len(r)) = r
Parent(l)   == IF l = <<>> THEN <<>> ELSE Front(l)

-----------------------------------------------------------------------------
(* strings *)
IsAbs(p)    == Len(p) >= 2 /\ p[1] = ""
AllEmpty(p) == \A i \in 1..Len(p) : p[i] = ""

RECURSIVE LeadEmpty(_)
LeadEmpty(p) == IF p = <<>> \/ Head(p) # "" THEN 0 ELSE 1 + LeadEmpty(Tail(p))
(* number of leading "/" characters *)
LeadSlashes(p) == IF AllEmpty(p) THEN Len(p) - 1 ELSE LeadEmpty(p)

(* posixpath.join(a, b) *)
Join(a, b) == IF IsAbs(b) THEN b
              ELSE IF Last(a) = "" THEN Front(a) \o b   \* a = "" or a ends with "/"
              ELSE a \o b                               \* a + "/" + b

(* the loop of posixpath.normpath *)
RECURSIVE NormFold(_, _, _)
NormFold(rest, acc, abs) ==
    IF rest = <<>> THEN acc
    ELSE LET c == Head(rest) IN
         IF c \in {"", "."} THEN NormFold(Tail(rest), acc, abs)
         ELSE IF c # ".." \/ (~abs /\ acc = <<>>) \/ (acc # <<>> /\ Last(acc) = "..")
              THEN NormFold(Tail(rest), Append(acc, c), abs)
         ELSE IF acc # <<>> THEN NormFold(Tail(rest), Front(acc), abs)
         ELSE NormFold(Tail(rest), acc, abs)

(* posixpath.normpath(p) for non-empty p: number of initial slashes kept    *)
(* (POSIX: exactly two leading slashes are preserved) and the components.  *)
NormPath(p) == [slashes |-> IF IsAbs(p) THEN (IF LeadSlashes(p) = 2 THEN 2 ELSE 1)
                            ELSE 0,
                comps   |-> NormFold(p, <<>>, IsAbs(p))]

(* posixpath.dirname *)
RECURSIVE RStrip(_)
RStrip(s) == IF Len(s) > 1 /\ Last(s) = "" THEN RStrip(Front(s)) ELSE s
Dirname(p) == IF Len(p) = 1 THEN <<"">>
              ELSE LET h == Append(Front(p), "") IN
                   IF AllEmpty(h) THEN h ELSE RStrip(h)

(* os.path.relpath(path, start) for two absolute strings *)
RECURSIVE CommonLen(_, _)
CommonLen(a, b) == IF a = <<>> \/ b = <<>> \/ Head(a) # Head(b) THEN 0
                   ELSE 1 + CommonLen(Tail(a), Tail(b))
RelPath(path, start) ==
    LET pl == NormFold(path, <<>>, TRUE)
        sl == NormFold(start, <<>>, TRUE)
        i  == CommonLen(pl, sl)
        r  == [k \in 1..(Len(sl) - i) |-> ".."] \o SubSeq(pl, i + 1, Len(pl))
    IN IF r = <<>> THEN <<".">> ELSE r

-----------------------------------------------------------------------------
(* SFTPServer.map_path (sftp.py): client path string -> local path string  *)
(*   "asis"   : normpath = posixpath.normpath(posixpath.join(b'/', path))   *)
(*              return posixpath.join(chroot, normpath[1:])                *)
(*   "strip"  : the same with every leading slash removed from normpath    *)
(*   "nonorm" : (sensitivity) join(chroot, join('/', path)[1:]), i.e. the  *)
(*              ".." components are left for the kernel to interpret       *)
MapStr(p, rule) ==
    LET j == Join(<<"", "">>, p)
        n == NormPath(j)
        rel == IF n.comps = <<>> THEN <<"">> ELSE n.comps
    IN CASE rule = "asis"   -> IF n.slashes = 2 THEN <<"">> \o rel   \* "/" + comps: absolute,
                                                                    \* replaces the chroot in join
                               ELSE RootStr \o rel
         [] rule = "strip"  -> RootStr \o rel
         [] rule = "nonorm" -> IF IsAbs(Tail(j)) THEN Tail(j) ELSE RootStr \o Tail(j)

(* location an absolute string denotes when no symbolic link is involved   *)
TextLoc(s) == NormFold(s, <<>>, TRUE)

-----------------------------------------------------------------------------
(* file systems: a function from the locations that exist to nodes *)
NoneNode == [k |-> "none", t |-> <<>>, ino |-> 0]
DirNode  == [k |-> "dir",  t |-> <<>>, ino |-> 0]
Node(fs, l) == IF l \in DOMAIN fs THEN fs[l] ELSE NoneNode
Children(fs, l) == {c \in DOMAIN fs : Len(c) = Len(l) + 1 /\ Under(l, c)}
Remove(fs, S) == [l \in DOMAIN fs \ S |-> fs[l]]

(* Path walk.  strict = TRUE: the kernel's walk (stops at the first error; *)
(* loc = the last location examined).  strict = FALSE: os.path.realpath()  *)
(* non-strict (continues textually over missing / non-directory            *)
(* components).  follow: follow a symbolic link in the final component.    *)
(* dirref: the string ended in "", "." or ".." (denotes a directory).      *)
RECURSIVE Walk(_, _, _, _, _, _)
Walk(fs, cur, comps, follow, strict, fuel) ==
    IF comps = <<>> THEN [loc |-> cur, err |-> "ok", dirref |-> TRUE]
    ELSE LET c == Head(comps)
             rest == Tail(comps) IN
         IF c \in {"", "."} THEN Walk(fs, cur, rest, follow, strict, fuel)
         ELSE IF c = ".." THEN Walk(fs, Parent(cur), rest, follow, strict, fuel)
         ELSE LET new == Append(cur, c)
                  nd  == Node(fs, new) IN
              IF nd.k = "link" /\ (rest # <<>> \/ follow) THEN
                  IF fuel = 0 \/ nd.t = <<"">>
                  THEN [loc |-> new, err |-> IF fuel = 0 THEN "ELOOP" ELSE "ENOENT",
                        dirref |-> FALSE]
                  ELSE Walk(fs, IF IsAbs(nd.t) THEN <<>> ELSE cur, nd.t \o rest,
                            follow, strict, fuel - 1)
              ELSE IF rest = <<>> THEN [loc |-> new, err |-> "ok", dirref |-> FALSE]
              ELSE IF nd.k = "dir" THEN Walk(fs, new, rest, follow, strict, fuel)
              ELSE IF strict
                   THEN [loc |-> new,
                         err |-> IF nd.k = "none" THEN "ENOENT" ELSE "ENOTDIR",
                         dirref |-> FALSE]
              ELSE Walk(fs, new, rest, follow, strict, fuel)

Exists(fs, w) == w.err = "ok" /\ (w.dirref \/ Node(fs, w.loc).k # "none")
KindAt(fs, w) == IF w.err # "ok" THEN "none"
                 ELSE IF w.dirref THEN Node(fs, w.loc).k ELSE Node(fs, w.loc).k

(* a symbolic link whose resolution does not terminate *)
HasLoop(fs, fuel) ==
    \E l \in DOMAIN fs : fs[l].k = "link" /\
        Walk(fs, <<>>, <<"">> \o l, TRUE, TRUE, fuel).err = "ELOOP"

=============================================================================
