CONSTANTS
  Names = {"a", "b"}
  Depth = 2
  Ops = {"mkdir", "symlink", "rename", "posix_rename", "link"}
  MaxNodes = 3
  MaxReq = 2
  MapRule = "strip"
  Rewrite = "realdir"
  Fuel = 8
  EmitEsc = FALSE
  Bias = "chg"
  RandK = 1
  EmitTr = TRUE
  ReqPaths <- c_ReqPaths
  Targets <- c_Targets
  InitTrees <- TreesSmall
  NormPaths <- c_NormPaths
SPECIFICATION Spec
CHECK_DEADLOCK FALSE
VIEW viewfs
INVARIANT TypeOK
