---- MODULE MC_c13_scp_nochk ----
EXTENDS PathConfineDL
c_SNames == {<<"a">>, <<"..">>, <<".">>, <<"a", "b">>, <<"", "a">>, <<"a\\b">>, <<"">>}
c_Backslash == {<<"a\\b">>}
c_Entries == {}
====
