---------------------------- MODULE PathConfine ----------------------------
(***************************************************************************)
(* C13, part (i): the client-path -> local-path mapping of a chroot'ed     *)
(* SFTP server (asyncssh/sftp.py SFTPServer.map_path), for EVERY path      *)
(* string built from the hostile components "", ".", ".." and two ordinary *)
(* names, with up to MaxLen components (leading / repeated / trailing      *)
(* slashes are empty components).                                          *)
(*                                                                         *)
(* Every path is an initial state; TLC checks MapUnderRoot on all of them  *)
(* and (table runs) prints <<path, mapped string, mapped location>> which  *)
(* the harness replays against the real map_path and, through real SFTP    *)
(* requests of every kind, against the real server under a system-call     *)
(* monitor.  See PathConfineFS (request sequences over a file system with  *)
(* symbolic links) and PathConfineDL (SCP sink, recursive SFTP get).       *)
(***************************************************************************)
EXTENDS PathOps

CONSTANTS
    Comps,      \* component alphabet, e.g. {"a", "b", "", ".", ".."}
    MaxLen,     \* maximal number of components
    MapRule,    \* "asis" | "strip" | "nonorm"  (see PathOps!MapStr)
    Emit        \* TRUE: print the table

VARIABLE p

Paths == SeqsUpTo(Comps, 1, MaxLen)

Init == p \in Paths
Next == UNCHANGED p
Spec == Init /\ [][Next]_p

Mapped == MapStr(p, MapRule)

(* C13, first sentence, for the mapping alone *)
MapUnderRoot == Under(RootLoc, TextLoc(Mapped))

(* the mapped string is normalised: the kernel has nothing to interpret *)
MapNormal == \A i \in 2..Len(Mapped) :
                 /\ Mapped[i] \notin {".", ".."}
                 /\ (Mapped[i] = "" => i = Len(Mapped))

Table == Emit => PrintT(<<"MAP", p, Mapped, TextLoc(Mapped)>>)

=============================================================================
