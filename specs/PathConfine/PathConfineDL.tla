--------------------------- MODULE PathConfineDL ---------------------------
(***************************************************************************)
(* C13, part (iii): downloads.  The remote side is hostile; whatever file  *)
(* names it supplies, nothing outside the destination the caller named may *)
(* be created or modified.                                                 *)
(*                                                                         *)
(* Mode "scp": the SCP sink (asyncssh/scp.py _SCPSink._recv_files,         *)
(* _recv_dir, _recv_file, _parse_cd_args) consuming an arbitrary sequence  *)
(* of C / D / E / T records, one record per step.                          *)
(*                                                                         *)
(* Mode "get": SFTPClient.get(src, dest, recurse=True) (sftp.py            *)
(* _begin_copy, _copy) walking a directory listing chosen by the server,   *)
(* one top-level entry per step; entries are files, directories (with a    *)
(* sub-listing) or symbolic links with a server-chosen target.             *)
(*                                                                         *)
(* The local file system is modelled as in PathOps (kernel walk with       *)
(* symbolic links); `created` collects the location of everything the      *)
(* download created, truncated or replaced.                                *)
(***************************************************************************)
EXTENDS PathOps

CONSTANTS
    Mode,        \* "scp" | "get" | "mget"
    SNames,      \* scp: names used in C and D records (path strings)
    Backslash,   \* scp: the members of SNames that contain a backslash
    CheckNames,  \* scp: TRUE = _parse_cd_args as written; FALSE = sensitivity
    Entries,     \* get: set of directory entries the server may list
    FilterNames, \* get: FALSE = _copy as written; TRUE = proposed repair (F4)
    DestKinds,   \* subset of {"dir", "none", "file"}: what dest is beforehand
    Conts,       \* subset of BOOLEAN: caller passed an error_handler
    MaxRec,      \* records / top-level entries
    Fuel,
    Patterns,    \* mget: LISTS (1..3) of glob patterns below the directory "s", each a
                 \* sequence of segments [k |-> "w", v |-> <<"*">>] (wildcard) or
                 \* [k |-> "lit", v |-> <<"a">>] (run of literal components)
    Recs,        \* mget: subset of BOOLEAN: recurse=
    Matches,     \* mget: {<<wildcard, name>>}: fnmatch(name, wildcard) holds
    GlobFilter,  \* mget: TRUE = listed names with a separator are refused
    CacheKeepsDots \* mget: FALSE = SFTPGlob as written; TRUE = (sensitivity) "."
                 \* and ".." are dropped only while a listing is first read

VARIABLES
    lfs,      \* local file system
    cfg,      \* [dest, cont]
    stack,    \* scp: destination strings of the nested _recv_files calls
              \* get: <<destination string of the top-level directory copy>>
              \* mget: the names SFTPGlob reported
    created,  \* locations created / modified by the download
    state,    \* "run" | "done" | "aborted"
    nrec,
    hist      \* records / entries consumed so far

vars == <<lfs, cfg, stack, created, state, nrec, hist>>

W(f, s, follow) == Walk(f, <<>>, s, follow, TRUE, Fuel)
Kind(f, w) == IF w.err = "ok" THEN Node(f, w.loc).k ELSE "none"
IsDir(f, s)  == LET w == W(f, s, TRUE) IN Exists(f, w) /\ Kind(f, w) = "dir"
ExistsS(f, s) == Exists(f, W(f, s, TRUE))            \* os.path.exists

Res(st, touched, f) == [st |-> st, touched |-> touched, fs |-> f]
FileNode == [k |-> "file", t |-> <<>>, ino |-> 0]

SysOpenW(f, s) ==          \* open(path, 'wb')
    LET w == W(f, s, TRUE)
        k == Kind(f, w) IN
    IF w.err # "ok" \/ w.dirref \/ k \in {"dir", "link"} THEN Res("err", {}, f)
    ELSE IF k = "file" THEN Res("ok", {w.loc}, f)
    ELSE Res("ok", {w.loc}, f @@ (w.loc :> FileNode))

SysMkdir(f, s) ==
    LET w == W(f, s, FALSE) IN
    IF w.err # "ok" \/ Exists(f, w) THEN Res("err", {}, f)
    ELSE Res("ok", {w.loc}, f @@ (w.loc :> DirNode))

SysSymlink(f, target, s) ==
    LET w == W(f, s, FALSE) IN
    IF w.err # "ok" \/ Exists(f, w) \/ target = <<"">> THEN Res("err", {}, f)
    ELSE Res("ok", {w.loc}, f @@ (w.loc :> [k |-> "link", t |-> target, ino |-> 0]))

(* next to the destination: a sibling whose name shares a prefix with it *)
Base == (<<>> :> DirNode) @@ (Top :> DirNode) @@ (Append(Top, "Dx") :> DirNode)
InitFs(d) == CASE d = "dir"  -> Base @@ (DestLoc :> DirNode)
               [] d = "file" -> Base @@ (DestLoc :> FileNode)
               [] d = "none" -> Base

-----------------------------------------------------------------------------
(* SCP sink *)
Records == [a : {"C", "D"}, name : SNames] \cup [a : {"E", "T"}, name : {<<"-">>}]

NameRejected(nm) ==
    \/ nm = <<"">>                        \* "C0644 3 " : split() yields 2 fields
    \/ CheckNames /\ (Len(nm) > 1 \/ nm \in Backslash \/ nm = <<"..">>)

ScpFail == IF cfg.cont THEN UNCHANGED <<lfs, stack, created, state>>
           ELSE /\ state' = "aborted" /\ UNCHANGED <<lfs, stack, created>>

ScpStep(r) ==
    /\ Mode = "scp" /\ state = "run" /\ nrec < MaxRec
    /\ nrec' = nrec + 1 /\ hist' = Append(hist, r) /\ UNCHANGED cfg
    /\ LET dst == Last(stack) IN
       CASE r.a = "T" -> UNCHANGED <<lfs, stack, created, state>>
         [] r.a = "E" -> /\ stack' = Front(stack)
                         /\ state' = IF Len(stack) = 1 THEN "done" ELSE "run"
                         /\ UNCHANGED <<lfs, created>>
         [] r.a \in {"C", "D"} ->
              IF NameRejected(r.name) THEN ScpFail
              ELSE LET newdst == IF IsDir(lfs, dst) THEN Join(dst, r.name) ELSE dst IN
                   IF r.a = "C" THEN
                       LET o == SysOpenW(lfs, newdst) IN
                       IF o.st = "err" THEN ScpFail
                       ELSE /\ lfs' = o.fs /\ created' = created \cup o.touched
                            /\ UNCHANGED <<stack, state>>
                   ELSE IF ExistsS(lfs, newdst) THEN
                       IF ~IsDir(lfs, newdst) THEN ScpFail
                       ELSE /\ stack' = Append(stack, newdst)
                            /\ UNCHANGED <<lfs, created, state>>
                   ELSE LET m == SysMkdir(lfs, newdst) IN
                        IF m.st = "err" THEN ScpFail
                        ELSE /\ lfs' = m.fs /\ created' = created \cup m.touched
                             /\ stack' = Append(stack, newdst)
                             /\ UNCHANGED state

-----------------------------------------------------------------------------
(* recursive SFTP get *)
Skipped(nm) == nm \in {<<".">>, <<"..">>}
Filtered(nm) == FilterNames /\ Len(nm) > 1          \* the name contains a "/"

(* _copy of one listed entry into directory string dst.                    *)
(* acc = [fs, created, ok, halt].  ok = FALSE: an exception is unwinding   *)
(* the whole get (no error_handler).  halt = TRUE: the repaired name check *)
(* raised inside the listing loop of the directory being copied: that loop *)
(* ends; the directory's own handler reports it (error_handler) and the    *)
(* parent's loop goes on, or the exception unwinds everything.             *)
RECURSIVE CopyAt(_, _, _, _)
RECURSIVE CopyList(_, _, _, _)
CopyEntry(acc, dst, e, cont) ==
    IF ~acc.ok \/ acc.halt \/ Skipped(e.name) THEN acc
    ELSE IF Filtered(e.name) THEN [acc EXCEPT !.halt = TRUE]
    ELSE CopyAt(acc, Join(dst, e.name), e, cont)
(* _copy(srcpath, dstpath = d) *)
CopyAt(acc, d, e, cont) ==
    IF ~acc.ok \/ acc.halt THEN acc
    ELSE
      CASE e.type = "file" ->
             LET o == SysOpenW(acc.fs, d) IN
             IF o.st = "err" THEN [acc EXCEPT !.ok = cont]
             ELSE [acc EXCEPT !.fs = o.fs, !.created = acc.created \cup o.touched]
        [] e.type = "link" ->
             LET o == SysSymlink(acc.fs, e.t, d) IN
             IF o.st = "err" THEN [acc EXCEPT !.ok = cont]
             ELSE [acc EXCEPT !.fs = o.fs, !.created = acc.created \cup o.touched]
        [] e.type = "dir" ->
             LET m == SysMkdir(acc.fs, d)
                 start == IF IsDir(acc.fs, d) THEN acc
                          ELSE IF m.st = "err" THEN [acc EXCEPT !.ok = cont, !.halt = TRUE]
                          ELSE [acc EXCEPT !.fs = m.fs,
                                           !.created = acc.created \cup m.touched]
                 r == CopyList(start, d, e.sub, cont)
             IN IF ~IsDir(acc.fs, d) /\ m.st = "err" THEN [acc EXCEPT !.ok = cont]
                ELSE IF r.halt THEN [r EXCEPT !.halt = FALSE, !.ok = cont]
                ELSE r
CopyList(acc, dst, list, cont) ==
    IF list = <<>> \/ acc.halt \/ ~acc.ok THEN acc
    ELSE CopyList(CopyEntry(acc, dst, Head(list), cont), dst, Tail(list), cont)

GetStep(e) ==
    /\ Mode = "get" /\ state = "run" /\ nrec < MaxRec
    /\ nrec' = nrec + 1 /\ hist' = Append(hist, e) /\ UNCHANGED <<cfg, stack>>
    /\ LET r == CopyEntry([fs |-> lfs, created |-> created, ok |-> TRUE,
                           halt |-> FALSE], stack[1], e, cfg.cont) IN
       /\ lfs' = r.fs /\ created' = r.created
       /\ state' = IF r.halt THEN (IF cfg.cont THEN "done" ELSE "aborted")
                   ELSE IF r.ok THEN "run" ELSE "aborted"

-----------------------------------------------------------------------------
(* Client-side glob expansion: SFTPClient.mget(b's/<pattern>', dest,       *)
(* recurse=True) and SFTPClient.glob().  SFTPGlob (sftp.py, _match,        *)
(* _match_exact, _match_pattern) walks the server's listings, joins the    *)
(* listed names onto the path being searched and reports the matches;      *)
(* _begin_copy copies every reported name to dest/basename(name).  The     *)
(* server is hostile: stat() says "directory" for every path, a listing    *)
(* holds arbitrary names.                                                  *)
SrcDir == <<"s">>
RECURSIVE JoinAll(_, _)
JoinAll(path, comps) == IF comps = <<>> THEN path
                        ELSE JoinAll(Join(path, <<Head(comps)>>), Tail(comps))
ListingOf(top, path) ==
    IF path = SrcDir THEN top
    ELSE LET c == {i \in 1..Len(top) : top[i].type = "dir" /\
                                       Join(SrcDir, top[i].name) = path} IN
         IF c = {} THEN <<>> ELSE top[CHOOSE i \in c : \A j \in c : i <= j].sub
DirEnt(top, path) == [name |-> path, type |-> "dir", t |-> <<>>,
                      sub |-> ListingOf(top, path)]
(* acc = [names, halt, matched, cache, multi, fail]:  names reported so far;   *)
(* halt: the current match() raised; matched: the current pattern matched    *)
(* something; cache: the directories whose listing SFTPGlob has cached (one   *)
(* SFTPGlob object serves all patterns of a call); multi: several patterns   *)
(* (duplicates are reported once); fail: some pattern ended in an error.     *)
Report(acc, np, e) ==
    IF acc.multi /\ \E i \in 1..Len(acc.names) : acc.names[i].name = np
    THEN [acc EXCEPT !.matched = TRUE]
    ELSE [acc EXCEPT !.names = Append(acc.names, [name |-> np, ent |-> e]),
                     !.matched = TRUE]
Dot(nm) == nm \in {<<".">>, <<"..">>}

RECURSIVE GMatch(_, _, _, _)
RECURSIVE GEntries(_, _, _, _, _, _, _)
GMatch(top, acc, path, pl) ==
    IF acc.halt THEN acc
    ELSE LET seg == Head(pl)
             rest == Tail(pl) IN
      IF seg.k = "lit" THEN              \* _match_exact
          LET np == JoinAll(path, seg.v) IN
          IF rest # <<>> THEN GMatch(top, acc, np, rest)
          ELSE Report(acc, np, DirEnt(top, np))
      ELSE                               \* _match_pattern
          LET a0 == IF seg.v # <<"**">> THEN acc
                    ELSE IF rest # <<>> THEN GMatch(top, acc, path, rest)
                    ELSE Report(acc, path, DirEnt(top, path))
              r == GEntries(top, a0, path, pl, ListingOf(top, path), 1,
                            path \in a0.cache)
          IN IF r.halt THEN r ELSE [r EXCEPT !.cache = r.cache \cup {path}]
(* replay: this listing comes from the cache.  As written "." and ".." are   *)
(* skipped by the matcher on every scan; CacheKeepsDots is the variant that  *)
(* drops them only while the listing is first read, so a replayed listing    *)
(* still holds them.                                                         *)
GEntries(top, acc, path, pl, list, i, replay) ==
    IF acc.halt \/ i > Len(list) THEN acc
    ELSE LET e == list[i]
             seg == Head(pl)
             rest == Tail(pl)
             np == Join(path, e.name) IN
      IF Dot(e.name) /\ ~(CacheKeepsDots /\ replay)
      THEN GEntries(top, acc, path, pl, list, i + 1, replay)
      ELSE IF GlobFilter /\ Len(e.name) > 1 THEN [acc EXCEPT !.halt = TRUE]
      ELSE IF <<seg.v, e.name>> \notin Matches
           THEN GEntries(top, acc, path, pl, list, i + 1, replay)
      ELSE IF seg.v = <<"**">> /\ e.type = "dir"
           THEN GEntries(top, GMatch(top, acc, np, pl), path, pl, list, i + 1, replay)
      ELSE IF rest # <<>>
           THEN GEntries(top, IF e.type = "dir" THEN GMatch(top, acc, np, rest) ELSE acc,
                         path, pl, list, i + 1, replay)
      ELSE GEntries(top, Report(acc, np, e), path, pl, list, i + 1, replay)

(* glob.match() for every pattern of the list, one SFTPGlob object *)
RECURSIVE GlobFrom(_, _, _, _)
GlobFrom(top, acc, pats, i) ==
    IF i > Len(pats) THEN acc
    ELSE LET a1 == GMatch(top, [acc EXCEPT !.halt = FALSE, !.matched = FALSE],
                          SrcDir, pats[i])
         IN GlobFrom(top, [a1 EXCEPT !.fail = acc.fail \/ a1.halt \/ ~a1.matched],
                     pats, i + 1)
Glob(top, pats) ==
    GlobFrom(top, [names |-> <<>>, halt |-> FALSE, matched |-> FALSE, cache |-> {},
                   multi |-> Len(pats) > 1, fail |-> FALSE], pats, 1)
NameSet(g) == {g.names[i].name : i \in 1..Len(g.names)}

RECURSIVE CopyNames(_, _, _, _, _)
CopyNames(acc, names, i, isdir, cont) ==
    IF i > Len(names) \/ ~acc.ok THEN acc
    ELSE LET nm == names[i].name
             d == IF isdir THEN Join(DestStr, <<Last(nm)>>) ELSE DestStr   \* basename
             e == names[i].ent
         IN IF e.type = "dir" /\ ~acc.rec          \* "... is a directory"
            THEN CopyNames([acc EXCEPT !.ok = cont], names, i + 1, isdir, cont)
            ELSE CopyNames(CopyAt(acc, d, e, cont), names, i + 1, isdir, cont)

(* the whole mget for a listing: [fs, created, names, state] *)
RunMget(c, top) ==
    LET g == Glob(top, c.pat)
        f0 == InitFs(c.dest)
        isdir == c.dest = "dir"
        none == [fs |-> f0, created |-> {}, names |-> g.names, state |-> "aborted"]
    IN IF (g.fail /\ ~c.cont) \/ g.names = <<>> \/ (Len(g.names) > 1 /\ ~isdir)
       THEN none
       ELSE LET r == CopyNames([fs |-> f0, created |-> {}, ok |-> TRUE, halt |-> FALSE,
                                rec |-> c.rec], g.names, 1, isdir, c.cont)
            IN [fs |-> r.fs, created |-> r.created, names |-> g.names,
                state |-> IF r.ok THEN "run" ELSE "aborted"]

MgetStep(e) ==
    /\ Mode = "mget" /\ nrec < MaxRec
    /\ nrec' = nrec + 1 /\ hist' = Append(hist, e) /\ UNCHANGED cfg
    /\ LET r == RunMget(cfg, hist') IN
       /\ lfs' = r.fs /\ created' = r.created /\ state' = r.state
       /\ stack' = [i \in 1..Len(r.names) |-> r.names[i].name]

-----------------------------------------------------------------------------
Init ==
    /\ cfg \in [dest : DestKinds, cont : Conts,
                 pat : IF Mode = "mget" THEN Patterns ELSE {<<>>},
                 rec : IF Mode = "mget" THEN Recs ELSE {TRUE}]
    /\ nrec = 0 /\ hist = <<>>
    /\ IF Mode = "mget" THEN
          LET r == RunMget(cfg, <<>>) IN      \* the empty listing
          /\ lfs = r.fs /\ created = r.created /\ state = r.state
          /\ stack = [i \in 1..Len(r.names) |-> r.names[i].name]
       ELSE IF Mode = "scp" THEN
          \* run(): recv_files(b'', dstpath)
          /\ lfs = InitFs(cfg.dest) /\ stack = <<DestStr>> /\ created = {}
          /\ state = "run"
       ELSE
          \* _begin_copy: one source directory "s"; its copy goes to dest/s if
          \* dest is a directory, else to dest; _copy creates it if needed
          LET top == IF cfg.dest = "dir" THEN Append(DestStr, "s") ELSE DestStr
              f0  == InitFs(cfg.dest)
              m   == SysMkdir(f0, top) IN
          /\ stack = <<top>>
          /\ IF IsDir(f0, top) THEN lfs = f0 /\ created = {} /\ state = "run"
             ELSE IF m.st = "ok" THEN lfs = m.fs /\ created = m.touched /\ state = "run"
             ELSE lfs = f0 /\ created = {} /\ state = "aborted"

Next == \/ \E r \in Records : ScpStep(r)
        \/ \E e \in Entries : GetStep(e)
        \/ \E e \in Entries : MgetStep(e)

Spec == Init /\ [][Next]_vars

-----------------------------------------------------------------------------
(* C13, second sentence *)
AllCreatedUnderDest == \A l \in created : Under(DestLoc, l)

(* names reported by glob() stay under the directory that was searched *)
NameUnder(nm) == ~IsAbs(nm) /\ Under(SrcDir, NormFold(nm, <<>>, FALSE))
GlobNamesUnderSearched ==
    Mode = "mget" => \A i \in 1..Len(stack) : NameUnder(stack[i])
(* glob() never reports the "." / ".." entry of a directory, and a list of  *)
(* patterns yields exactly the union of what each pattern yields alone      *)
GlobNoDots == Mode = "mget" => \A i \in 1..Len(stack) : ~Dot(<<Last(stack[i])>>)
GlobUnion ==
    Mode = "mget" =>
        NameSet(Glob(hist, cfg.pat)) =
            UNION {NameSet(Glob(hist, <<cfg.pat[i]>>)) : i \in 1..Len(cfg.pat)}

EmitM == PrintT(<<"MCASE", cfg, hist, state, created,
                 {<<l, lfs[l].k, lfs[l].t>> : l \in DOMAIN lfs \ {<<>>, Top}},
                 stack>>)

Outcome == <<Mode, cfg, hist, state, created,
             {<<l, lfs[l].k, lfs[l].t>> : l \in DOMAIN lfs \ {<<>>, Top}}>>
EmitAll == PrintT(<<"CASE", Outcome>>)

(* vacuity witnesses (must be violated) *)
NeverNested  == Len(stack) < 3
NeverCreated == created = {}
=============================================================================
