---- MODULE MC_c13_fs_norw ----
EXTENDS PathConfineFS
c_ReqPaths == {<<"a">>, <<"b">>, <<"a", "b">>, <<"a", "a">>, <<"b", "a">>}
c_Targets == {<<"..">>, <<"", "..">>, <<"a">>}
c_NormPaths == {<<"a">>, <<"b">>, <<"a", "b">>, <<"a", "a">>, <<"b", "a">>}
====
