CONSTANTS
  Mode = "get"
  CheckNames = TRUE
  FilterNames = TRUE
  DestKinds = {"dir", "none"}
  Conts = {TRUE, FALSE}
  MaxRec = 2
  Fuel = 8
  SNames <- c_SNames
  Backslash <- c_Backslash
  Entries <- c_Entries
SPECIFICATION Spec
CHECK_DEADLOCK FALSE
INVARIANT AllCreatedUnderDest
