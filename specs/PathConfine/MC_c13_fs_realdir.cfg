CONSTANTS
  Names = {"a", "b"}
  Depth = 2
  Ops = {"open_r", "open_w", "stat", "lstat", "mkdir", "rmdir", "remove", "symlink", "readlink", "realpath", "opendir", "setstat"}
  MaxNodes = 3
  MaxReq = 4
  MapRule = "strip"
  Rewrite = "realdir"
  Fuel = 8
  EmitEsc = FALSE
  Bias = "all"
  RandK = 1
  EmitTr = FALSE
  ReqPaths <- c_ReqPaths
  Targets <- c_Targets
  InitTrees <- TreesAll
  NormPaths <- c_NormPaths
SPECIFICATION Spec
CHECK_DEADLOCK FALSE
VIEW view
INVARIANT TypeOK
INVARIANT AllTouchedUnderRoot
