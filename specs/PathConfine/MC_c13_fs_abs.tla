---- MODULE MC_c13_fs_abs ----
EXTENDS PathConfineFS
c_ReqPaths == {<<"a">>, <<"b">>, <<"a", "b">>, <<"a", "a">>, <<"b", "a">>, <<"", "">>}
c_Targets == {<<"", "">>, <<"", "a">>, <<"", "a", "b">>, <<"", "..">>, <<"", "", "a">>}
====
