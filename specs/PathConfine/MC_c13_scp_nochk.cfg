CONSTANTS
  Mode = "scp"
  CheckNames = FALSE
  FilterNames = FALSE
  DestKinds = {"dir", "none", "file"}
  Conts = {TRUE, FALSE}
  MaxRec = 3
  Fuel = 8
  SNames <- c_SNames
  Backslash <- c_Backslash
  Entries <- c_Entries
SPECIFICATION Spec
CHECK_DEADLOCK FALSE
INVARIANT AllCreatedUnderDest
