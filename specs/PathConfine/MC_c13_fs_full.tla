---- MODULE MC_c13_fs_full ----
EXTENDS PathConfineFS
c_ReqPaths == {<<"a">>, <<"b">>, <<"a", "b">>, <<"a", "a">>, <<"", "">>}
c_Targets == {<<"..">>, <<"b", "..", "..">>, <<"", "">>, <<".">>}
====
