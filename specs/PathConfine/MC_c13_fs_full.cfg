CONSTANTS
  Names = {"a", "b"}
  Depth = 2
  Ops = {"open_r", "open_w", "stat", "lstat", "mkdir", "rmdir", "remove", "rename", "posix_rename", "symlink", "link", "readlink", "realpath", "opendir", "setstat"}
  MaxNodes = 4
  MaxReq = 5
  MapRule = "asis"
  Rewrite = "asis"
  Fuel = 8
  EmitEsc = TRUE
  Bias = "all"
  RandK = 1
  ReqPaths <- c_ReqPaths
  Targets <- c_Targets
  InitTrees <- TreesAll
SPECIFICATION Spec
CHECK_DEADLOCK FALSE
VIEW view
INVARIANT TypeOK
