CONSTANTS
  Names = {"a", "b"}
  Depth = 2
  Ops = {"open_r", "open_w", "stat", "lstat", "mkdir", "rmdir", "remove", "rename", "posix_rename", "symlink", "link", "readlink", "realpath", "opendir", "setstat"}
  MaxNodes = 3
  MaxReq = 4
  MapRule = "asis"
  Rewrite = "asis"
  Fuel = 8
  EmitEsc = TRUE
  Bias = "all"
  RandK = 1
  ReqPaths <- c_ReqPaths
  Targets <- c_Targets
  InitTrees <- TreesSmall
SPECIFICATION Spec
CHECK_DEADLOCK FALSE
VIEW view
INVARIANT TypeOK
