CONSTANTS
  Names = {"a", "b"}
  Depth = 2
  Ops = {"open_r", "open_w", "stat", "lstat", "mkdir", "rmdir", "remove", "rename", "posix_rename", "symlink", "link", "readlink", "realpath", "opendir", "setstat"}
  MaxNodes = 4
  MaxReq = 8
  MapRule = "strip"
  Rewrite = "realdir"
  Fuel = 8
  EmitEsc = FALSE
  Bias = "all"
  RandK = 3
  EmitTr = FALSE
  ReqPaths <- c_ReqPaths
  Targets <- c_Targets
  InitTrees <- TreesAll
  NormPaths <- c_NormPaths
SPECIFICATION SimSpec
CHECK_DEADLOCK FALSE
