------------------------------ MODULE Requests ------------------------------
(***************************************************************************)
(* Request / reply discipline of SSH channel requests and global requests *)
(* (asyncssh/channel.py: _send_request, _make_request, _request_waiters,   *)
(* _request_queue, _service_next_request, _report_response,                *)
(* _process_request, _process_response, _process_close, _cleanup;          *)
(* asyncssh/connection.py: the *_global_* counterparts and _cleanup).      *)
(*                                                                         *)
(* A REQUESTER "r" issues requests in scopes: "g" (global requests of the  *)
(* connection) or a channel.  A request may want a reply.  The replies on  *)
(* the wire carry no identification at all: the requester keeps, per       *)
(* scope, the list of callers waiting for a reply and gives every reply    *)
(* to the OLDEST one.  That is only right if the SERVING side "s" answers  *)
(* every want-reply request of a scope exactly once, answers no other, and *)
(* answers in request order - although a handler may finish long after its *)
(* request arrived (application callbacks returning awaitables, listeners  *)
(* being set up).  So the serving side queues the requests of a scope and  *)
(* serves them strictly one at a time.                                     *)
(*                                                                         *)
(* One action = one critical section of the code as the harness can        *)
(* schedule it (run-to-completion: the event loop runs until idle after    *)
(* every external event).  The ids of requests and of replies are GHOSTS   *)
(* (the wire has none); they exist to state the matching properties.       *)
(***************************************************************************)
EXTENDS Naturals, Sequences, FiniteSets, TLC

CONSTANTS
    Chans,          \* channel scopes, e.g. {"a", "b"}
    GlobalOn,       \* TRUE: the scope "g" of global requests exists as well
    MaxReq,         \* number of requests of a behaviour
    MaxSlow,        \* of which so many may have a slow handler
    WantSet,        \* subset of BOOLEAN: want_reply values the requester uses
    KindSet,        \* subset of {"ok", "fail", "slow"}: handler kinds
    ReqRole,        \* "code": the requester is asyncssh (callers, cancellation)
                    \* "free": a raw peer (pipelines at will, unsolicited replies)
    AllowCancel, AllowClose, AllowCut, AllowUnsol,
    KeepLog,        \* keep the history of labels + projections (replay)
    \* ---- the rules; the design values are given first ----
    Fifo,           \* TRUE  a reply goes to the oldest waiter (FALSE: newest)
    OnlyWanted,     \* TRUE  no reply for want_reply = FALSE (FALSE: always reply)
    Serial,         \* TRUE  one handler at a time per scope (FALSE: start at arrival)
    CancelKeeps,    \* TRUE  a cancelled caller's entry stays and eats its reply
    DropOnGone,     \* TRUE  requests queued on a scope that is gone are dropped
                    \*       (FALSE: rule of the pinned tree: a handler finishing
                    \*        late goes on serving the queue of the dead channel)
    CloseResolves,  \* TRUE  the peer's CLOSE fails the callers still waiting
    CutResolves,    \* TRUE  connection loss fails the callers still waiting
    SilentAfterClose, \* TRUE no reply on a channel once the own CLOSE was sent
    UnsolFatal,     \* TRUE  a reply nobody waits for is a protocol error
    FailReplies     \* TRUE  a failing handler is answered (FAILURE), too

VARIABLES
    reqs,       \* sequence of [sc, want, kind]; request id = position
    caller,     \* per request [st, by]: st in none / wait / ok / fail / cancel,
                \*   by = ghost id of the reply that resolved it (0: no reply did)
    waiters,    \* requester: scope -> sequence of [id, live]
    c2s, s2c,   \* the two directions of the connection (FIFO)
    sq,         \* serving side: scope -> ids received and not yet finished
    run,        \* serving side: scope -> ids whose (slow) handler is running
    sent, got,  \* side -> channel -> CHANNEL_CLOSE sent / received
    lost,       \* the connection is gone (both ends)
    perr,       \* ... because an endpoint met a protocol error
    served,     \* ghost: scope -> ids in the order their handlers were started
    repseq,     \* ghost: scope -> ids in the order replies were emitted
    bad,        \* ghost: set of rule violations seen when they happened
    unsol,      \* ghost: number of unsolicited replies delivered
    dropped,    \* ghost: requests that had arrived and were dropped unserved
    lbl, log

vars == <<reqs, caller, waiters, c2s, s2c, sq, run, sent, got, lost, perr,
          served, repseq, bad, unsol, dropped, lbl, log>>
view == <<reqs, caller, waiters, c2s, s2c, sq, run, sent, got, lost, perr,
          served, repseq, bad, unsol, dropped>>

Scopes == (IF GlobalOn THEN {"g"} ELSE {}) \cup Chans
Sides == {"r", "s"}
Ids == 1 .. MaxReq

Msg(t, sc, id, ok) == [t |-> t, sc |-> sc, id |-> id, ok |-> ok]

ScopeOf(i) == reqs[i].sc
IsChan(sc) == sc \in Chans
GoneAt(side, sc) == lost \/ (IsChan(sc) /\ sent[side][sc] /\ got[side][sc])
ClosedBy(side, sc) == IsChan(sc) /\ sent[side][sc]
\* requests that have arrived and whose handler has not been started
NWaitingIn(sc) == Cardinality({k \in 1 .. Len(sq[sc]) : sq[sc][k] \notin run[sc]})
RECURSIVE NWaitingSet(_)
NWaitingSet(S) == IF S = {} THEN 0
                  ELSE LET x == CHOOSE y \in S : TRUE
                       IN  NWaitingIn(x) + NWaitingSet(S \ {x})
NWaiting == NWaitingSet(Scopes)
NSlow == Cardinality({i \in 1 .. Len(reqs) : reqs[i].kind = "slow"})

Init ==
    /\ reqs = <<>> /\ caller = <<>>
    /\ waiters = [sc \in Scopes |-> <<>>]
    /\ c2s = <<>> /\ s2c = <<>>
    /\ sq = [sc \in Scopes |-> <<>>]
    /\ run = [sc \in Scopes |-> {}]
    /\ sent = [x \in Sides |-> [c \in Chans |-> FALSE]]
    /\ got = [x \in Sides |-> [c \in Chans |-> FALSE]]
    /\ lost = FALSE /\ perr = FALSE
    /\ served = [sc \in Scopes |-> <<>>]
    /\ repseq = [sc \in Scopes |-> <<>>]
    /\ bad = {} /\ unsol = 0 /\ dropped = 0
    /\ lbl = <<"init">> /\ log = <<>>

(***************************************************************************)
(* Requester                                                               *)
(***************************************************************************)
\* _make_request / _send_request, _make_global_request / _send_global_request.
\* On a channel whose CLOSE was already sent (or after the connection is
\* gone) nothing is sent and a caller is told "failed" at once.
MakeRequest(sc, want, kind) ==
    /\ Len(reqs) < MaxReq
    /\ kind = "slow" => NSlow < MaxSlow
    /\ LET i == Len(reqs) + 1
           open == ~lost /\ ~ClosedBy("r", sc)
       IN  /\ ~open => ReqRole = "code"
           /\ reqs' = Append(reqs, [sc |-> sc, want |-> want, kind |-> kind])
           /\ IF open
              THEN /\ c2s' = Append(c2s, Msg("REQ", sc, i, want))
                   /\ waiters' = IF want
                                 THEN [waiters EXCEPT ![sc] =
                                         Append(@, [id |-> i, live |-> TRUE])]
                                 ELSE waiters
                   /\ caller' = Append(caller,
                                       [st |-> IF want THEN "wait" ELSE "none",
                                        by |-> 0])
              ELSE /\ UNCHANGED <<c2s, waiters>>
                   /\ caller' = Append(caller,
                                       [st |-> IF want THEN "fail" ELSE "none",
                                        by |-> 0])
           /\ lbl' = <<"make", sc, want, kind, i, open>>
    /\ UNCHANGED <<dropped, s2c, sq, run, sent, got, lost, perr, served, repseq, bad,
                   unsol>>

\* the task awaiting the reply is cancelled: the future is cancelled but stays
\* in the list, so that the reply to ITS request is consumed by it
RemoveId(seq, i) == SelectSeq(seq, LAMBDA w : w.id # i)
MarkDead(seq, i) == [k \in 1 .. Len(seq) |->
                        IF seq[k].id = i THEN [seq[k] EXCEPT !.live = FALSE]
                        ELSE seq[k]]

CancelCaller(i) ==
    /\ AllowCancel /\ ReqRole = "code"
    /\ i \in 1 .. Len(reqs) /\ caller[i].st = "wait"
    /\ caller' = [caller EXCEPT ![i].st = "cancel"]
    /\ waiters' = [waiters EXCEPT ![ScopeOf(i)] =
                      IF CancelKeeps THEN MarkDead(@, i) ELSE RemoveId(@, i)]
    /\ lbl' = <<"cancel", i>>
    /\ UNCHANGED <<dropped, reqs, c2s, s2c, sq, run, sent, got, lost, perr, served,
                   repseq, bad, unsol>>

\* everything that ends when the connection goes away
FailAll(cal, ws) ==
    [i \in 1 .. Len(cal) |->
        IF cal[i].st = "wait" /\ \E sc \in Scopes : \E k \in 1 .. Len(ws[sc]) :
                                     ws[sc][k].id = i /\ ws[sc][k].live
        THEN [st |-> "fail", by |-> 0] ELSE cal[i]]

ConnGone(isErr) ==
    /\ lost' = TRUE /\ perr' = (perr \/ isErr)
    /\ c2s' = <<>> /\ s2c' = <<>>
    /\ IF CutResolves
       THEN /\ caller' = FailAll(caller, waiters)
            /\ waiters' = [sc \in Scopes |-> <<>>]
       ELSE UNCHANGED <<caller, waiters>>
    /\ sq' = IF DropOnGone THEN [sc \in Scopes |-> <<>>] ELSE sq
    /\ dropped' = IF DropOnGone THEN dropped + NWaiting ELSE dropped

\* a reply arrives at the requester
DeliverReply ==
    /\ ~lost /\ s2c # <<>> /\ Head(s2c).t = "REP"
    /\ LET m == Head(s2c)
           ws == waiters[m.sc]
       IN  IF ws = <<>>
           THEN \* nobody waits: protocol error, the connection is dropped
                /\ unsol' = unsol + 1
                /\ IF UnsolFatal
                   THEN ConnGone(TRUE) /\ UNCHANGED <<run, sent, got>>
                   ELSE /\ s2c' = Tail(s2c)
                        /\ UNCHANGED <<dropped, caller, waiters, c2s, sq, run, sent,
                                       got, lost, perr>>
                /\ lbl' = <<"reply", m.sc, m.id, m.ok, "unsolicited">>
           ELSE LET k == IF Fifo THEN 1 ELSE Len(ws)
                    w == ws[k]
                IN  /\ s2c' = Tail(s2c)
                    /\ waiters' = [waiters EXCEPT ![m.sc] =
                                     [j \in 1 .. Len(ws) - 1 |->
                                        IF j < k THEN ws[j] ELSE ws[j + 1]]]
                    /\ caller' = IF w.live
                                 THEN [caller EXCEPT ![w.id] =
                                         [st |-> IF m.ok THEN "ok" ELSE "fail",
                                          by |-> m.id]]
                                 ELSE caller
                    /\ lbl' = <<"reply", m.sc, m.id, m.ok, w.id>>
                    /\ UNCHANGED <<dropped, c2s, sq, run, sent, got, lost, perr, unsol>>
    /\ UNCHANGED <<reqs, served, repseq, bad>>

(***************************************************************************)
(* Serving side                                                            *)
(***************************************************************************)
\* is request i answered (decided when its handler finishes)
Answered(i, ok) ==
    /\ reqs[i].want \/ ~OnlyWanted
    /\ ok \/ FailReplies
    /\ SilentAfterClose => ~ClosedBy("s", ScopeOf(i))

\* serve the queue q of a scope until it is empty or a slow handler runs:
\* [q: what is left, out: replies emitted, st: handlers started, run: running]
RECURSIVE Drain(_, _, _)
Drain(q, out, st) ==
    IF q = <<>> THEN [q |-> q, out |-> out, st |-> st, run |-> {}]
    ELSE LET i == Head(q) IN
         IF reqs[i].kind = "slow"
         THEN [q |-> q, out |-> out, st |-> Append(st, i), run |-> {i}]
         ELSE Drain(Tail(q),
                    IF Answered(i, reqs[i].kind = "ok")
                    THEN Append(out, Msg("REP", ScopeOf(i), i,
                                         reqs[i].kind = "ok"))
                    ELSE out,
                    Append(st, i))

Ids2(seq) == [k \in 1 .. Len(seq) |-> seq[k].id]

\* bookkeeping common to every step of the serving side on scope sc:
\* d = result of Drain (or an equivalent record), pre = replies emitted first
Serve(sc, d, pre, isGone) ==
    /\ s2c' = IF lost THEN s2c ELSE s2c \o pre \o d.out
    /\ served' = [served EXCEPT ![sc] = @ \o d.st]
    /\ repseq' = [repseq EXCEPT ![sc] = @ \o Ids2(pre \o d.out)]
    /\ bad' = bad
         \cup (IF isGone /\ d.st # <<>> THEN {"lateStart"} ELSE {})
         \cup (IF (isGone \/ ClosedBy("s", sc)) /\ (pre \o d.out) # <<>>
               THEN {"lateReply"} ELSE {})

\* a request arrives (_process_request / _process_global_request)
DeliverRequest ==
    /\ ~lost /\ c2s # <<>> /\ Head(c2s).t = "REQ"
    /\ LET m == Head(c2s)
           sc == m.sc
           i == m.id
       IN  /\ c2s' = Tail(c2s)
           /\ IF Serial
              THEN IF sq[sc] = <<>>
                   THEN LET d == Drain(<<i>>, <<>>, <<>>) IN
                        /\ sq' = [sq EXCEPT ![sc] = d.q]
                        /\ run' = [run EXCEPT ![sc] = d.run]
                        /\ Serve(sc, d, <<>>, FALSE)
                   ELSE /\ sq' = [sq EXCEPT ![sc] = Append(@, i)]
                        /\ UNCHANGED <<run, s2c, served, repseq, bad>>
              ELSE \* wrong rule: the handler is started whatever is going on
                   LET d == Drain(<<i>>, <<>>, <<>>) IN
                   /\ sq' = [sq EXCEPT ![sc] = @ \o d.q]
                   /\ run' = [run EXCEPT ![sc] = @ \cup d.run]
                   /\ Serve(sc, d, <<>>, FALSE)
           /\ lbl' = <<"dreq", sc, i>>
    /\ UNCHANGED <<dropped, reqs, caller, waiters, sent, got, lost, perr, unsol>>

\* a slow handler finishes with a result (_report_response and what it
\* triggers: the following requests are served until the next slow one)
HandlerCompletes(sc, ok) ==
    /\ run[sc] # {}
    /\ \E i \in run[sc] :
       LET isGone == GoneAt("s", sc)
           rest == SelectSeq(sq[sc], LAMBDA j : j # i)
           pre == IF ~isGone /\ Answered(i, ok)
                  THEN <<Msg("REP", sc, i, ok)>> ELSE <<>>
       IN  /\ IF isGone /\ DropOnGone
              THEN \* the scope is gone: nothing is left to do
                   /\ run' = [run EXCEPT ![sc] = @ \ {i}]
                   /\ UNCHANGED <<sq, s2c, served, repseq, bad>>
              ELSE IF Serial
                   THEN LET d == Drain(rest, <<>>, <<>>) IN
                        /\ sq' = [sq EXCEPT ![sc] = d.q]
                        /\ run' = [run EXCEPT ![sc] = d.run]
                        /\ Serve(sc, d, pre, isGone)
                   ELSE /\ sq' = [sq EXCEPT ![sc] = rest]
                        /\ run' = [run EXCEPT ![sc] = @ \ {i}]
                        /\ Serve(sc, [q |-> rest, out |-> <<>>, st |-> <<>>,
                                      run |-> {}], pre, isGone)
           /\ lbl' = <<"done", sc, i, ok>>
    /\ UNCHANGED <<dropped, reqs, caller, waiters, c2s, sent, got, lost, perr, unsol>>

(***************************************************************************)
(* Closing                                                                 *)
(***************************************************************************)
Out(side) == IF side = "r" THEN c2s ELSE s2c

\* the application of one side closes a channel: CLOSE goes out; callers keep
\* waiting (replies may still be on their way), handlers keep running
CloseChannel(side, ch) ==
    /\ AllowClose /\ ~lost /\ ~sent[side][ch]
    /\ sent' = [sent EXCEPT ![side][ch] = TRUE]
    /\ IF side = "r"
       THEN c2s' = Append(c2s, Msg("CLOSE", ch, 0, FALSE)) /\ UNCHANGED s2c
       ELSE s2c' = Append(s2c, Msg("CLOSE", ch, 0, FALSE)) /\ UNCHANGED c2s
    /\ lbl' = <<"close", side, ch>>
    /\ UNCHANGED <<dropped, reqs, caller, waiters, sq, run, got, lost, perr, served,
                   repseq, bad, unsol>>

FailScope(cal, ws) ==
    [i \in 1 .. Len(cal) |->
        IF cal[i].st = "wait" /\ \E k \in 1 .. Len(ws) :
                                     ws[k].id = i /\ ws[k].live
        THEN [st |-> "fail", by |-> 0] ELSE cal[i]]

\* the peer's CLOSE arrives (_process_close, then _cleanup)
DeliverClose(side) ==
    /\ ~lost
    /\ LET inq == IF side = "s" THEN c2s ELSE s2c IN
       /\ inq # <<>> /\ Head(inq).t = "CLOSE"
       /\ LET ch == Head(inq).sc
              reply == IF sent[side][ch] THEN <<>>
                       ELSE <<Msg("CLOSE", ch, 0, FALSE)>>
          IN  /\ got' = [got EXCEPT ![side][ch] = TRUE]
              /\ sent' = [sent EXCEPT ![side][ch] = TRUE]
              /\ IF side = "s"
                 THEN /\ c2s' = Tail(c2s) /\ s2c' = s2c \o reply
                      /\ sq' = IF DropOnGone THEN [sq EXCEPT ![ch] = <<>>]
                               ELSE sq
                      /\ dropped' = IF DropOnGone
                                    THEN dropped + NWaitingIn(ch) ELSE dropped
                      /\ UNCHANGED <<caller, waiters>>
                 ELSE /\ s2c' = Tail(s2c) /\ c2s' = c2s \o reply
                      /\ IF CloseResolves
                         THEN /\ caller' = FailScope(caller, waiters[ch])
                              /\ waiters' = [waiters EXCEPT ![ch] = <<>>]
                         ELSE UNCHANGED <<caller, waiters>>
                      /\ UNCHANGED <<sq, dropped>>
              /\ lbl' = <<"dclose", side, ch>>
    /\ UNCHANGED <<reqs, run, lost, perr, served, repseq, bad, unsol>>

\* the transport is lost under both ends
Cut ==
    /\ AllowCut /\ ~lost
    /\ ConnGone(FALSE)
    /\ lbl' = <<"cut">>
    /\ UNCHANGED <<reqs, run, sent, got, served, repseq, bad, unsol>>

(***************************************************************************)
(* The free requester: replies nobody asked for, sent to the serving side  *)
(* (which has no request outstanding: it never makes any in this model)    *)
(***************************************************************************)
SendUnsolicited(sc) ==
    /\ AllowUnsol /\ ReqRole = "free" /\ ~lost /\ ~ClosedBy("r", sc)
    /\ unsol = 0 /\ \A k \in 1 .. Len(c2s) : c2s[k].t # "REP"
    /\ c2s' = Append(c2s, Msg("REP", sc, 0, TRUE))
    /\ lbl' = <<"unsol", sc>>
    /\ UNCHANGED <<dropped, reqs, caller, waiters, s2c, sq, run, sent, got, lost, perr,
                   served, repseq, bad, unsol, dropped>>

DeliverUnsolicited ==
    /\ ~lost /\ c2s # <<>> /\ Head(c2s).t = "REP"
    /\ unsol' = unsol + 1
    /\ IF UnsolFatal
       THEN ConnGone(TRUE) /\ UNCHANGED <<run, sent, got>>
       ELSE /\ c2s' = Tail(c2s)
            /\ UNCHANGED <<dropped, caller, waiters, s2c, sq, run, sent, got, lost, perr>>
    /\ lbl' = <<"dunsol", Head(c2s).sc>>
    /\ UNCHANGED <<reqs, served, repseq, bad>>

(***************************************************************************)
Proj == [w |-> [sc \in Scopes |-> Len(waiters[sc])],
         q |-> [sc \in Scopes |-> Len(sq[sc])],
         run |-> UNION {run[sc] : sc \in Scopes},
         c |-> [i \in 1 .. Len(caller) |-> caller[i].st],
         c2s |-> [k \in 1 .. Len(c2s) |-> <<c2s[k].t, c2s[k].sc, c2s[k].id>>],
         s2c |-> [k \in 1 .. Len(s2c) |-> <<s2c[k].t, s2c[k].sc, s2c[k].id,
                                           s2c[k].ok>>],
         served |-> served, lost |-> lost, perr |-> perr]

\* the history kept for replay: label + projection of the state reached
Lg == log' = IF KeepLog THEN Append(log, <<lbl', Proj'>>) ELSE log

AMake == (\E sc \in Scopes, want \in WantSet, kind \in KindSet :
             MakeRequest(sc, want, kind)) /\ Lg
ACancel == (\E i \in Ids : CancelCaller(i)) /\ Lg
ADeliverRequest == DeliverRequest /\ Lg
AHandlerCompletes == (\E sc \in Scopes, ok \in BOOLEAN :
                         HandlerCompletes(sc, ok)) /\ Lg
ADeliverReply == DeliverReply /\ Lg
ACloseChannel == (\E side \in Sides, ch \in Chans : CloseChannel(side, ch))
                    /\ Lg
ADeliverClose == (\E side \in Sides : DeliverClose(side)) /\ Lg
ACut == Cut /\ Lg
ASendUnsolicited == (\E sc \in Scopes : SendUnsolicited(sc)) /\ Lg
ADeliverUnsolicited == DeliverUnsolicited /\ Lg

Next == \/ AMake \/ ACancel \/ ADeliverRequest \/ AHandlerCompletes
        \/ ADeliverReply \/ ACloseChannel \/ ADeliverClose \/ ACut
        \/ ASendUnsolicited \/ ADeliverUnsolicited

Spec == Init /\ [][Next]_vars
FairSpec == Spec /\ WF_vars(ADeliverRequest) /\ WF_vars(ADeliverReply)
                 /\ WF_vars(ADeliverClose) /\ WF_vars(ADeliverUnsolicited)
                 /\ WF_vars(AHandlerCompletes)

(***************************************************************************)
(* Properties                                                              *)
(***************************************************************************)
Increasing(seq) == \A k \in 1 .. Len(seq) - 1 : seq[k] < seq[k + 1]
Quiet == c2s = <<>> /\ s2c = <<>> /\ \A sc \in Scopes : run[sc] = {}

TypeOK ==
    /\ Len(caller) = Len(reqs)
    /\ \A sc \in Scopes : \A k \in 1 .. Len(waiters[sc]) :
          waiters[sc][k].id \in 1 .. Len(reqs)

\* every caller that got a reply got the reply to ITS request
MatchOwn == \A i \in 1 .. Len(caller) : caller[i].by \in {0, i}

\* a reply says what the handler of that request decided
ResultRight ==
    \A i \in 1 .. Len(caller) :
       (caller[i].by = i /\ reqs[i].kind # "slow") =>
           caller[i].st = reqs[i].kind

\* exactly one reply per want_reply request, none for the others
OneReplyEach ==
    \A sc \in Scopes :
       /\ \A k \in 1 .. Len(repseq[sc]) : reqs[repseq[sc][k]].want
       /\ \A k1, k2 \in 1 .. Len(repseq[sc]) :
             k1 # k2 => repseq[sc][k1] # repseq[sc][k2]

\* replies leave in request order
RepliesInOrder == \A sc \in Scopes : Increasing(repseq[sc])

\* requests are handled in request order, one at a time
ServedInOrder == \A sc \in Scopes : Increasing(served[sc])
OneAtATime ==
    \A sc \in Scopes :
       /\ Cardinality(run[sc]) <= 1
       /\ (run[sc] # {} /\ sq[sc] # <<>>) => run[sc] = {Head(sq[sc])}
       \* nothing behind a running handler has been started
       /\ \A i \in run[sc] : \A k \in 1 .. Len(served[sc]) : served[sc][k] <= i

\* no caller hangs: once nothing can arrive any more, nobody waits
WaitersResolve ==
    \A i \in 1 .. Len(caller) :
       caller[i].st = "wait" =>
          ~(lost \/ (IsChan(ScopeOf(i)) /\ got["r"][ScopeOf(i)]))
AllAnswered == Quiet => \A i \in 1 .. Len(caller) : caller[i].st # "wait"

\* nothing happens on a scope that is gone
NoReplyAfterClose == "lateReply" \notin bad
NoServiceAfterGone == "lateStart" \notin bad

\* a reply nobody waits for ends the connection
UnsolicitedFatal == unsol > 0 => (lost /\ perr)
\* ... and between two correct endpoints that never happens
NoProtocolError == ReqRole = "code" => ~perr

\* the streams are well formed: no REP of a channel behind that side's CLOSE
StreamsSane ==
    \A k1, k2 \in 1 .. Len(s2c) :
       (k1 < k2 /\ s2c[k1].t = "CLOSE" /\ s2c[k2].t = "REP")
           => s2c[k1].sc # s2c[k2].sc

Terminates == <>[]Quiet

Final == [reqs |-> reqs, caller |-> caller, served |-> served,
          repseq |-> repseq, lost |-> lost, perr |-> perr, sent |-> sent,
          got |-> got]
Complete == Quiet /\ (Len(reqs) = MaxReq \/ lost)
EmitScript == Complete => PrintT(ToString(<<"SCRIPT", log, Final>>))
EmitAny == (Quiet /\ Len(reqs) >= 1) => PrintT(ToString(<<"SCRIPT", log, Final>>))

\* vacuity witnesses (must be reported violated = reachable)
NeverQueued == \A sc \in Scopes : Len(sq[sc]) < 3
NeverCancelledReply ==
    ~(\E sc \in Scopes : waiters[sc] # <<>> /\ ~waiters[sc][1].live
                         /\ s2c # <<>> /\ Head(s2c).t = "REP"
                         /\ Head(s2c).sc = sc)
NeverOrphan == ~(\E sc \in Scopes : run[sc] # {} /\ GoneAt("s", sc))
NeverCloseWhileWaiting ==
    ~(\E ch \in Chans : got["r"][ch] /\ \E i \in 1 .. Len(caller) :
         ScopeOf(i) = ch /\ caller[i].st = "fail" /\ caller[i].by = 0
         /\ reqs[i].want)
=============================================================================
