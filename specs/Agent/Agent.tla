-------------------------------- MODULE Agent --------------------------------
(***************************************************************************)
(* The SSH agent client of asyncssh (agent.py, agent_unix.py) and agent    *)
(* forwarding (connection.py create_agent_listener / create_agent_         *)
(* connection / open_agent_connection / _process_auth_agent_at_openssh_    *)
(* dot_com_open, channel.py auth-agent-req@openssh.com).                   *)
(*                                                                         *)
(* Part = "client": one SSHAgentClient object used by NC concurrent        *)
(* callers (tasks) against one agent.                                      *)
(*                                                                         *)
(*   - The agent protocol has no request identifiers: a response belongs   *)
(*     to a request only by POSITION on the connection.  _make_request     *)
(*     therefore serialises callers with an asyncio.Lock (FIFO), connects  *)
(*     lazily inside the lock (at most once per call, never retried),      *)
(*     writes uint32 length + type + body and reads uint32 length + body.  *)
(*   - OSError / EOFError (IncompleteReadError) / PacketDecodeError inside *)
(*     _make_request drop the connection (close + forget reader / writer)  *)
(*     and reach the caller as ValueError: the NEXT call reconnects.  A    *)
(*     complete frame of the wrong type or with a malformed body is        *)
(*     consumed whole: error for that caller, connection stays in step.    *)
(*   - A caller may be cancelled while it waits for the lock, while it     *)
(*     connects, or while it waits for the response.  In the last case the *)
(*     response is still on its way: the connection must not be handed to  *)
(*     the next caller as it is (DropOnCancel).  The pinned tree keeps it  *)
(*     (DropOnCancel = FALSE): TLC rejects that rule (OwnResponse).        *)
(*   - The agent: key store (key -> absent / plain / confirm / lifetime),  *)
(*     lock flag; OpenSSH semantics for a locked agent (empty identity     *)
(*     list, everything else but unlock fails).  It answers in arrival     *)
(*     order; the driver decides how the answer is cut into deliveries     *)
(*     (Units tokens per frame), and the faults: wrong type, malformed     *)
(*     body, zero length, truncated then closed, declared length larger    *)
(*     than what follows then closed, closed instead of an answer, closed  *)
(*     while idle, not listening when the client connects.                 *)
(*   - SSHAgentKeyPair: the RSA SHA-2 flags of a sign request follow the   *)
(*     signature algorithm selected LAST (AccumFlags = FALSE).  The pinned *)
(*     tree ORs them together (AccumFlags = TRUE): rejected (FlagsRight).  *)
(*                                                                         *)
(* Part = "fwd": agent forwarding on one SSH connection, see below.        *)
(***************************************************************************)
EXTENDS Naturals, Sequences, FiniteSets, TLC

CONSTANTS
    Part,           \* "client" | "fwd"
    \* ---- client part ----------------------------------------------------
    NC,             \* callers
    Keys,           \* key names
    RsaKeys,        \* those whose signatures take the SHA-2 flags
    AddKeys,        \* those add_keys can upload (no bare certificates)
    InitStore,      \* keys the agent holds at the start (plain)
    OpKinds,        \* subset of the operation kinds below
    AlgDepth,       \* set_sig_algorithm() calls before a signature with an RSA key (0..2)
    MaxCalls,
    FaultKinds,     \* subset of {"wrong","bad","zero","trunc","over","close"}
    MaxFaults,
    MaxCancel,
    MaxCloses,      \* agent closes while idle / user calls close()
    MaxToggle,      \* agent stops / starts listening
    Units,          \* tokens per response frame (>= 2: a frame can be split)
    RTC,            \* run-to-completion: internal steps first (replay)
    KeepLog,        \* keep the labels of the behaviour in log (export)
    \* ---- rules; the values in the comment are the specification ---------
    UseLock,        \* TRUE
    DropOnError,    \* TRUE   (FALSE: the broken connection is used again)
    DropOnCancel,   \* TRUE   (FALSE: pinned tree)
    ReleaseOnCancel,\* TRUE   (FALSE: a cancelled holder keeps the lock)
    AccumFlags,     \* FALSE  (TRUE: pinned tree)
    \* ---- forwarding part ------------------------------------------------
    ClientFwd,      \* client option agent_forwarding
    ServerFwd,      \* server option agent_forwarding
    NS,             \* sessions
    NCh,            \* agent channels
    MaxW,           \* units written per direction and channel
    Hows,           \* subset of {"api","path","rogue"}
    ClientGate,     \* "option" (as coded, as OpenSSH) | "request" (stricter)
    ServerGate,     \* TRUE (FALSE: create_agent_connection without listener)
    RelayEof,       \* TRUE (FALSE: a close is not passed on)
    DropOnClose     \* FALSE (TRUE: data accepted before a close is lost)

Callers == 1..NC
Serials == 1..MaxCalls
Cons == {"plain", "confirm", "life"}
Algs == {"sha1", "s256", "s512"}
AlgSeqs == {<<>>} \cup (IF AlgDepth >= 1 THEN {<<a>> : a \in Algs} ELSE {})
           \cup (IF AlgDepth >= 2
                 THEN {<<a, b>> : a \in Algs, b \in Algs} \ {<<a, a>> : a \in Algs}
                 ELSE {})

\* operations: [k, key, a]  (a: sequence of strings, <<>> when unused)
NoKey == "-"
Ops ==
    {[k |-> kk, key |-> NoKey, a |-> <<>>] :
        kk \in {"list", "removeall", "lock", "query", "scremove"} \cap OpKinds}
    \* get_keys(identities = [x])
    \cup {[k |-> "list", key |-> x, a |-> <<>>] :
            x \in IF "listonly" \in OpKinds THEN Keys ELSE {}}
    \cup {[k |-> "scadd", key |-> NoKey, a |-> <<c>>] :
            c \in IF "scadd" \in OpKinds THEN Cons ELSE {}}
    \cup {[k |-> "unlock", key |-> NoKey, a |-> <<p>>] :
            p \in IF "unlock" \in OpKinds THEN {"right", "wrong"} ELSE {}}
    \cup {[k |-> "sign", key |-> x, a |-> s] :
            x \in IF "sign" \in OpKinds THEN Keys \ RsaKeys ELSE {}, s \in {<<>>}}
    \cup {[k |-> "sign", key |-> x, a |-> s] :
            x \in IF "sign" \in OpKinds THEN RsaKeys ELSE {}, s \in AlgSeqs}
    \cup {[k |-> "add", key |-> x, a |-> <<c>>] :
            x \in IF "add" \in OpKinds THEN AddKeys ELSE {}, c \in Cons}
    \cup {[k |-> "remove", key |-> x, a |-> <<>>] :
            x \in IF "remove" \in OpKinds THEN Keys ELSE {}}

FlagOf(alg) == CASE alg = "s256" -> 2 [] alg = "s512" -> 4 [] OTHER -> 0
\* flags the specification wants in the sign request
WantFlags(a) == IF a = <<>> THEN 0 ELSE FlagOf(a[Len(a)])
\* flags the implementation sends
SentFlags(a) ==
    IF ~AccumFlags THEN WantFlags(a)
    ELSE (IF \E j \in 1..Len(a) : a[j] = "s256" THEN 2 ELSE 0) +
         (IF \E j \in 1..Len(a) : a[j] = "s512" THEN 4 ELSE 0)

NoResp == [t |-> "none", ids |-> {}, key |-> NoKey, fl |-> 0, n |-> 0, need |-> 0]
Eof == [s |-> 0, i |-> 0, r |-> NoResp]
NoOp == [k |-> "none", key |-> NoKey, a |-> <<>>]

VARIABLES
    \* ---- agent ----
    store,      \* key -> "no" | "plain" | "confirm" | "life"
    locked,
    listening,
    \* ---- the client's current connection ----
    conn,       \* "none" | "open"   (the client holds a reader / writer)
    tainted,    \* an error was reported to a caller on this connection
    aopen,      \* the agent's end of it is open
    c2a,        \* requests [s, op, fl] written and not yet processed
    orphans,    \* requests left on connections the client has dropped
    out,        \* tokens [s, i, r] the agent has produced, not yet delivered (+ Eof)
    rbuf,       \* tokens delivered to the client's reader, not consumed
    eofd,       \* end of file delivered to the client's reader
    \* ---- callers ----
    pc,         \* caller -> "idle" | "wait" | "locked" | "conn" | "sent" | "done"
    ser,        \* caller -> serial of its current / last call
    op,         \* caller -> operation of its current / last call
    queue,      \* callers waiting for the lock, FIFO
    holder,     \* caller holding the lock (0: free)
    res,        \* caller -> result of its last call
    cc,         \* caller -> connections opened during its current call
    \* ---- history ----
    bad,        \* set of rule names seen broken
    ncalls, nfaults, ncancel, ncloses, ntoggle,
    \* ---- forwarding part ----
    sess,       \* session -> "none" | "open" | "closed"
    asked,      \* some session has sent auth-agent-req
    lsn,        \* server: agent listener exists
    agentup,    \* the local agent socket of the client accepts connections
    ch,         \* channel -> [st, how]
    up,         \* channel -> [w, held, got, disc, end, endheld, endgot]  server -> agent
    down,       \* channel -> [w, got, disc, end, endgot]                agent -> server
    dheld,      \* agent -> server items held on the SSH link (all channels, FIFO)
    fbad,
    lbl,
    log         \* KeepLog: the labels so far (behaviour export)

cvars == <<store, locked, listening, conn, tainted, aopen, c2a, orphans, out,
           rbuf, eofd, pc, ser, op, queue, holder, res, cc, bad,
           ncalls, nfaults, ncancel, ncloses, ntoggle>>
fvars == <<sess, asked, lsn, agentup, ch, up, down, dheld, fbad>>
vars == <<cvars, fvars, lbl, log>>
view == <<cvars, fvars>>

Lbl(l) == lbl' = l /\ log' = IF KeepLog THEN Append(log, l) ELSE log
CP == Part = "client" /\ UNCHANGED fvars
FP == Part = "fwd" /\ UNCHANGED cvars

NoRes == [k |-> "none", ids |-> {}, key |-> NoKey, fl |-> 0, from |-> 0]

-----------------------------------------------------------------------------
\* the agent's semantics (OpenSSH ssh-agent)
Present(st) == {x \in Keys : st[x] # "no"}

RespOf(st, lk, o, fl) ==
    LET ok == [NoResp EXCEPT !.t = "success"]
        no == [NoResp EXCEPT !.t = "failure"] IN
    CASE o.k = "list" -> [NoResp EXCEPT !.t = "ids",
                                        !.ids = IF lk THEN {} ELSE Present(st)]
      [] o.k = "sign" -> IF ~lk /\ st[o.key] # "no"
                         THEN [NoResp EXCEPT !.t = "sig", !.key = o.key, !.fl = fl]
                         ELSE no
      [] o.k = "add" -> IF lk THEN no ELSE ok
      [] o.k = "remove" -> IF ~lk /\ st[o.key] # "no" THEN ok ELSE no
      [] o.k = "removeall" -> IF lk THEN no ELSE ok
      [] o.k = "lock" -> IF lk THEN no ELSE ok
      [] o.k = "unlock" -> IF lk /\ o.a = <<"right">> THEN ok ELSE no
      [] o.k = "query" -> IF lk THEN no ELSE [NoResp EXCEPT !.t = "exts"]
      [] o.k \in {"scadd", "scremove"} -> IF lk THEN no ELSE ok

StoreAfter(st, lk, o) ==
    IF lk THEN st
    ELSE CASE o.k = "add" -> [st EXCEPT ![o.key] = o.a[1]]
           [] o.k = "remove" -> [st EXCEPT ![o.key] = "no"]
           [] o.k = "removeall" -> [x \in Keys |-> "no"]
           [] OTHER -> st

LockAfter(lk, o) ==
    CASE o.k = "lock" -> TRUE
      [] o.k = "unlock" /\ o.a = <<"right">> -> FALSE
      [] OTHER -> lk

\* what a caller of operation o makes of a complete frame r (answer to serial s)
Decode(o, r, s) ==
    LET R(kind) == [NoRes EXCEPT !.k = kind, !.from = s]
        succ == {"add", "remove", "removeall", "lock", "unlock", "scadd", "scremove"} IN
    CASE r.t = "zero" -> R("lost")        \* no type byte: decode error inside
      [] r.t = "bad" -> R("dec")
      [] r.t = "wrong" -> R("unk")
      [] r.t = "ids" -> IF o.k = "list"
                        THEN [R("ok") EXCEPT !.ids = IF o.key = NoKey THEN r.ids
                                                     ELSE r.ids \cap {o.key}]
                        ELSE R("unk")
      [] r.t = "sig" -> IF o.k = "sign"
                        THEN [R("ok") EXCEPT !.key = r.key, !.fl = r.fl]
                        ELSE R("unk")
      [] r.t = "success" -> IF o.k \in succ \cup {"query"} THEN R("ok")
                            ELSE R("unk")
      [] r.t = "exts" -> IF o.k = "query" THEN [R("ok") EXCEPT !.key = "exts"]
                         ELSE IF o.k \in succ THEN R("dec") ELSE R("unk")
      [] r.t = "failure" -> IF o.k = "query" THEN R("ok")
                            ELSE IF o.k = "list" THEN R("unk") ELSE R("fail")

-----------------------------------------------------------------------------
Busy == {i \in Callers : pc[i] \in {"locked", "conn", "sent"}}

Remove(q, i) == SelectSeq(q, LAMBDA x : x # i)
SeqSet(q) == {q[j] : j \in 1..Len(q)}

\* the client forgets the connection (close + reader = writer = None)
Drop ==
    /\ conn' = "none" /\ tainted' = FALSE /\ aopen' = FALSE
    /\ orphans' = orphans \cup SeqSet(c2a)
    /\ c2a' = <<>> /\ out' = <<>> /\ rbuf' = <<>> /\ eofd' = FALSE
KeepConn == UNCHANGED <<conn, tainted, aopen, orphans, c2a, out, rbuf, eofd>>

Release(i) == holder' = IF holder = i THEN 0 ELSE holder

Finish(i, r) ==
    /\ pc' = [pc EXCEPT ![i] = "done"]
    /\ res' = [res EXCEPT ![i] = r]
    /\ Release(i)

ClientInit ==
    /\ store = [x \in Keys |-> IF x \in InitStore THEN "plain" ELSE "no"]
    /\ locked = FALSE /\ listening = TRUE
    /\ conn = "none" /\ tainted = FALSE /\ aopen = FALSE
    /\ c2a = <<>> /\ orphans = {} /\ out = <<>> /\ rbuf = <<>> /\ eofd = FALSE
    /\ pc = [i \in Callers |-> "idle"] /\ ser = [i \in Callers |-> 0]
    /\ op = [i \in Callers |-> NoOp]
    /\ queue = <<>> /\ holder = 0
    /\ res = [i \in Callers |-> NoRes] /\ cc = [i \in Callers |-> 0]
    /\ bad = {}
    /\ ncalls = 0 /\ nfaults = 0 /\ ncancel = 0 /\ ncloses = 0 /\ ntoggle = 0

\* ---- internal steps of the client (no suspension point before them) ------
Acquire(i) ==
    /\ UseLock /\ holder = 0 /\ queue # <<>> /\ Head(queue) = i
    /\ holder' = i /\ queue' = Tail(queue)
    /\ pc' = [pc EXCEPT ![i] = "locked"]
    /\ Lbl(<<"acquire", i>>)
    /\ UNCHANGED <<store, locked, listening, ser, op, res, cc, bad,
                   ncalls, nfaults, ncancel, ncloses, ntoggle>>
    /\ KeepConn /\ CP

MyReq(i) == [s |-> ser[i], op |-> op[i],
             fl |-> IF op[i].k = "sign" THEN SentFlags(op[i].a) ELSE 0]

\* the request is written (it is lost when the agent's end is closed)
Written(i) ==
    /\ c2a' = IF aopen' THEN Append(c2a, MyReq(i)) ELSE c2a
    /\ bad' = bad
        \cup (IF conn = "open" /\ tainted THEN {"usebroken"} ELSE {})
        \cup (IF conn = "open" /\ (c2a # <<>> \/ rbuf # <<>> \/
                                   \E j \in 1..Len(out) : out[j] # Eof)
              THEN {"stalesend"} ELSE {})

Start(i) ==
    /\ pc[i] = "locked"
    /\ IF conn = "none"
       THEN /\ pc' = [pc EXCEPT ![i] = "conn"]
            /\ UNCHANGED <<c2a, bad>>
       ELSE /\ pc' = [pc EXCEPT ![i] = "sent"]
            /\ aopen' = aopen /\ Written(i)
    /\ Lbl(<<"start", i>>)
    /\ UNCHANGED <<store, locked, listening, conn, tainted, aopen, orphans, out,
                   rbuf, eofd, ser, op, queue, holder, res, cc,
                   ncalls, nfaults, ncancel, ncloses, ntoggle>>
    /\ CP

HeadFrame == rbuf[1].s
Have == Cardinality({j \in 1..Len(rbuf) : rbuf[j].s = HeadFrame})
SubSeqFrom(q, a) == IF a > Len(q) THEN <<>> ELSE SubSeq(q, a, Len(q))

Receive(i) ==
    /\ pc[i] = "sent" /\ (UseLock => holder = i)
    /\ rbuf # <<>>
    /\ LET s == HeadFrame
           r == rbuf[1].r
           d == Decode(op[i], r, s) IN
       /\ Have >= r.need
       /\ Lbl(<<"receive", i, d>>)
       /\ Finish(i, d)
       /\ IF d.k = "lost"
          THEN IF DropOnError THEN Drop
               ELSE /\ tainted' = TRUE /\ rbuf' = SubSeqFrom(rbuf, r.need + 1)
                    /\ UNCHANGED <<conn, aopen, orphans, c2a, out, eofd>>
          ELSE /\ rbuf' = SubSeqFrom(rbuf, r.need + 1)
               /\ UNCHANGED <<conn, tainted, aopen, orphans, c2a, out, eofd>>
    /\ UNCHANGED <<store, locked, listening, ser, op, queue, cc, bad,
                   ncalls, nfaults, ncancel, ncloses, ntoggle>>
    /\ CP

\* end of file before the frame is complete
Fail(i) ==
    /\ pc[i] = "sent" /\ (UseLock => holder = i)
    /\ eofd /\ (IF rbuf = <<>> THEN TRUE ELSE Have < rbuf[1].r.need)
    /\ Finish(i, [NoRes EXCEPT !.k = "lost"])
    /\ IF DropOnError THEN Drop
       ELSE /\ tainted' = TRUE
            /\ UNCHANGED <<conn, aopen, orphans, c2a, out, rbuf, eofd>>
    /\ Lbl(<<"fail", i>>)
    /\ UNCHANGED <<store, locked, listening, ser, op, queue, cc, bad,
                   ncalls, nfaults, ncancel, ncloses, ntoggle>>
    /\ CP

Internal(i) == Acquire(i) \/ Start(i) \/ Receive(i) \/ Fail(i)
InternalEnabled ==
    \E i \in Callers :
        \/ (UseLock /\ holder = 0 /\ queue # <<>> /\ Head(queue) = i)
        \/ pc[i] = "locked"
        \/ /\ pc[i] = "sent" /\ (UseLock => holder = i)
           /\ IF rbuf = <<>> THEN eofd
              ELSE Have >= rbuf[1].r.need \/ eofd
Ext == RTC => ~InternalEnabled

\* ---- external steps ---------------------------------------------------------
Call(i, o) ==
    /\ Ext /\ pc[i] \in {"idle", "done"} /\ ncalls < MaxCalls
    /\ ncalls' = ncalls + 1
    /\ ser' = [ser EXCEPT ![i] = ncalls + 1]
    /\ op' = [op EXCEPT ![i] = o]
    /\ cc' = [cc EXCEPT ![i] = 0]
    /\ res' = [res EXCEPT ![i] = NoRes]
    /\ bad' = bad \cup (IF o.k = "sign" /\ SentFlags(o.a) # WantFlags(o.a)
                        THEN {"flags"} ELSE {})
    /\ IF UseLock
       THEN /\ queue' = Append(queue, i) /\ pc' = [pc EXCEPT ![i] = "wait"]
       ELSE /\ queue' = queue /\ pc' = [pc EXCEPT ![i] = "locked"]
    /\ Lbl(<<"call", i, o>>)
    /\ UNCHANGED <<store, locked, listening, holder, nfaults, ncancel,
                   ncloses, ntoggle>>
    /\ KeepConn /\ CP

\* the connection attempt of caller i completes
Reconnect(i) ==
    /\ Ext /\ pc[i] = "conn"
    /\ cc' = [cc EXCEPT ![i] = @ + 1]
    /\ IF conn = "open"             \* only without the lock: somebody else did
       THEN /\ pc' = [pc EXCEPT ![i] = "sent"]
            /\ aopen' = aopen /\ Written(i)
            /\ UNCHANGED <<conn, tainted, orphans, out, rbuf, eofd, res, holder>>
       ELSE IF listening
       THEN /\ conn' = "open" /\ aopen' = TRUE /\ tainted' = FALSE
            /\ pc' = [pc EXCEPT ![i] = "sent"]
            /\ Written(i)
            /\ UNCHANGED <<orphans, out, rbuf, eofd, res, holder>>
       ELSE /\ Finish(i, [NoRes EXCEPT !.k = "lost"])
            /\ UNCHANGED <<bad>>
            /\ KeepConn
    /\ Lbl(<<"reconnect", i, conn = "open" \/ listening>>)
    /\ UNCHANGED <<store, locked, listening, ser, op, queue,
                   ncalls, nfaults, ncancel, ncloses, ntoggle>>
    /\ CP

Tokens(s, n, r) == [j \in 1..n |-> [s |-> s, i |-> j, r |-> r]]

\* the agent takes the oldest request of the connection; f: fault, k: tokens
\* written when the answer is truncated
AgentProcess(f, k) ==
    /\ Ext /\ aopen /\ c2a # <<>>
    /\ f \in {"none"} \cup FaultKinds
    /\ (f # "none" => nfaults < MaxFaults)
    /\ (f = "trunc" => k \in 1..(Units - 1)) /\ (f # "trunc" => k = Units)
    /\ LET q == Head(c2a)
           o == q.op
           honest == RespOf(store, locked, o, q.fl)
           does == f \in {"none", "trunc", "over"}
           r == CASE f = "none" -> [honest EXCEPT !.n = Units, !.need = Units]
                  [] f = "trunc" -> [honest EXCEPT !.n = k, !.need = Units]
                  [] f = "over" -> [honest EXCEPT !.n = Units, !.need = Units + 1]
                  [] f = "close" -> NoResp
                  [] OTHER -> [NoResp EXCEPT !.t = f, !.n = Units, !.need = Units]
           ends == f \in {"trunc", "over", "close"} IN
       /\ store' = IF does THEN StoreAfter(store, locked, o) ELSE store
       /\ locked' = IF does /\ honest.t = "success" THEN LockAfter(locked, o)
                    ELSE locked
       /\ out' = out \o Tokens(q.s, r.n, r) \o (IF ends THEN <<Eof>> ELSE <<>>)
       /\ aopen' = ~ends
       /\ c2a' = IF ends THEN <<>> ELSE Tail(c2a)
       /\ nfaults' = IF f = "none" THEN nfaults ELSE nfaults + 1
       /\ Lbl(<<"process", q.s, f, k, r>>)
    /\ UNCHANGED <<listening, conn, tainted, orphans, rbuf, eofd, pc, ser, op,
                   queue, holder, res, cc, bad, ncalls, ncancel, ncloses, ntoggle>>
    /\ CP

\* a request left on a dropped connection is still carried out (no answer)
ProcessOrphan(s) ==
    /\ Ext /\ \E q \in orphans : q.s = s
    /\ LET q == CHOOSE x \in orphans : x.s = s IN
       /\ store' = StoreAfter(store, locked, q.op)
       /\ locked' = IF RespOf(store, locked, q.op, 0).t = "success"
                    THEN LockAfter(locked, q.op) ELSE locked
       /\ orphans' = orphans \ {q}
    /\ Lbl(<<"orphan", s>>)
    /\ UNCHANGED <<listening, conn, tainted, aopen, c2a, out, rbuf, eofd, pc, ser,
                   op, queue, holder, res, cc, bad, ncalls, nfaults,
                   ncancel, ncloses, ntoggle>>
    /\ CP

\* ... or never looked at
ForgetOrphan(s) ==
    /\ Ext /\ \E q \in orphans : q.s = s
    /\ orphans' = {q \in orphans : q.s # s}
    /\ Lbl(<<"forget", s>>)
    /\ UNCHANGED <<store, locked, listening, conn, tainted, aopen, c2a, out, rbuf,
                   eofd, pc, ser, op, queue, holder, res, cc, bad, ncalls,
                   nfaults, ncancel, ncloses, ntoggle>>
    /\ CP

\* the agent closes the connection (requests it has not looked at are gone)
AgentCloses ==
    /\ Ext /\ aopen /\ ncloses < MaxCloses
    /\ aopen' = FALSE /\ c2a' = <<>> /\ out' = Append(out, Eof)
    /\ ncloses' = ncloses + 1
    /\ Lbl(<<"agentcloses">>)
    /\ UNCHANGED <<store, locked, listening, conn, tainted, orphans, rbuf, eofd,
                   pc, ser, op, queue, holder, res, cc, bad, ncalls,
                   nfaults, ncancel, ntoggle>>
    /\ CP

Lead == IF \E j \in 1..Len(out) : out[j] = Eof
        THEN (CHOOSE j \in 1..Len(out) : out[j] = Eof /\
                  \A m \in 1..(j-1) : out[m] # Eof) - 1
        ELSE Len(out)

DeliverChunk(n) ==
    /\ Ext /\ conn = "open" /\ n \in 1..Lead
    /\ rbuf' = rbuf \o SubSeq(out, 1, n)
    /\ out' = SubSeqFrom(out, n + 1)
    /\ Lbl(<<"deliver", n>>)
    /\ UNCHANGED <<store, locked, listening, conn, tainted, aopen, c2a, orphans,
                   eofd, pc, ser, op, queue, holder, res, cc, bad, ncalls,
                   nfaults, ncancel, ncloses, ntoggle>>
    /\ CP

DeliverEof ==
    /\ Ext /\ conn = "open" /\ out # <<>> /\ Head(out) = Eof
    /\ eofd' = TRUE /\ out' = Tail(out)
    /\ Lbl(<<"delivereof">>)
    /\ UNCHANGED <<store, locked, listening, conn, tainted, aopen, c2a, orphans,
                   rbuf, pc, ser, op, queue, holder, res, cc, bad, ncalls,
                   nfaults, ncancel, ncloses, ntoggle>>
    /\ CP

Cancel(i) ==
    /\ Ext /\ ncancel < MaxCancel
    /\ pc[i] \in {"wait", "conn", "sent"}
    /\ ncancel' = ncancel + 1
    /\ pc' = [pc EXCEPT ![i] = "done"]
    /\ res' = [res EXCEPT ![i] = [NoRes EXCEPT !.k = "cancel"]]
    /\ queue' = Remove(queue, i)
    /\ holder' = IF holder = i /\ ReleaseOnCancel THEN 0 ELSE holder
    /\ IF pc[i] = "sent" /\ DropOnCancel /\ conn = "open" THEN Drop ELSE KeepConn
    /\ Lbl(<<"cancel", i, pc[i]>>)
    /\ UNCHANGED <<store, locked, listening, ser, op, cc, bad, ncalls,
                   nfaults, ncloses, ntoggle>>
    /\ CP

\* SSHAgentClient.close(): the writer is closed, the references stay
UserClose ==
    /\ Ext /\ conn = "open" /\ ~eofd /\ ncloses < MaxCloses
    /\ ncloses' = ncloses + 1
    /\ eofd' = TRUE /\ out' = <<>> /\ aopen' = FALSE
    /\ orphans' = orphans \cup SeqSet(c2a) /\ c2a' = <<>>
    /\ Lbl(<<"userclose">>)
    /\ UNCHANGED <<store, locked, listening, conn, tainted, rbuf, pc, ser, op,
                   queue, holder, res, cc, bad, ncalls, nfaults, ncancel,
                   ntoggle>>
    /\ CP

ToggleListen ==
    /\ Ext /\ ntoggle < MaxToggle
    /\ ntoggle' = ntoggle + 1 /\ listening' = ~listening
    /\ Lbl(<<"listen", ~listening>>)
    /\ UNCHANGED <<store, locked, conn, tainted, aopen, c2a, orphans, out, rbuf,
                   eofd, pc, ser, op, queue, holder, res, cc, bad, ncalls,
                   nfaults, ncancel, ncloses>>
    /\ CP

ClientNext ==
    \/ \E i \in Callers : Acquire(i)
    \/ \E i \in Callers : Start(i)
    \/ \E i \in Callers : Receive(i)
    \/ \E i \in Callers : Fail(i)
    \/ \E i \in Callers, o \in Ops : Call(i, o)
    \/ \E i \in Callers : Reconnect(i)
    \/ \E i \in Callers : Cancel(i)
    \/ \E f \in {"none"} \cup FaultKinds, k \in 1..Units : AgentProcess(f, k)
    \/ \E s \in Serials : ProcessOrphan(s)
    \/ \E s \in Serials : ForgetOrphan(s)
    \/ \E n \in 1..(Units * 2) : DeliverChunk(n)
    \/ AgentCloses \/ DeliverEof \/ UserClose \/ ToggleListen

-----------------------------------------------------------------------------
(***************************************************************************)
(* Part = "fwd".  One SSH connection.  The client sends auth-agent-req on  *)
(* every session it opens iff its agent_forwarding option is set; the      *)
(* server creates ONE listener per connection at the first request it      *)
(* grants (its own agent_forwarding option) and keeps it until the         *)
(* connection ends.  An agent channel is opened by the server through      *)
(* open_agent_connection ("api"), by a local process connecting to the     *)
(* listener's path ("path"; exists only with a listener), or by a server   *)
(* that ignores its own gate ("rogue").  The client accepts it iff the     *)
(* option is set (and, ClientGate = "request", a session has asked) and    *)
(* its local agent accepts the connection.                                 *)
(* Relay: units written by the server-side end travel to the agent         *)
(* (held[c]: in front of the agent, delivered n at a time), units written  *)
(* by the agent travel back (dheld: on the SSH link, delivered all at      *)
(* once).  Either end may close (after its last write, without waiting):   *)
(* what it wrote before must still arrive, then the other end sees the     *)
(* end of file / close.                                                    *)
(***************************************************************************)
Sessions == 1..NS
Chans == 1..NCh
Ends == {"eof", "close"}
NoUp == [w |-> 0, held |-> 0, got |-> 0, disc |-> 0, end |-> "no",
         endheld |-> "no", endgot |-> "no"]
NoDown == [w |-> 0, got |-> 0, disc |-> 0, end |-> "no", endgot |-> "no"]

FwdInit ==
    /\ sess = [s \in Sessions |-> "none"] /\ asked = FALSE /\ lsn = FALSE
    /\ agentup = TRUE
    /\ ch = [c \in Chans |-> [st |-> "none", how |-> "none"]]
    /\ up = [c \in Chans |-> NoUp] /\ down = [c \in Chans |-> NoDown]
    /\ dheld = <<>> /\ fbad = {}

OpenSession(s) ==
    /\ dheld = <<>>
    /\ sess[s] = "none" /\ \A t \in 1..(s-1) : sess[t] # "none"
    /\ sess' = [sess EXCEPT ![s] = "open"]
    /\ asked' = (asked \/ ClientFwd)
    /\ lsn' = (lsn \/ (ClientFwd /\ ServerFwd))
    /\ Lbl(<<"session", s>>)
    /\ UNCHANGED <<agentup, ch, up, down, dheld, fbad>>
    /\ FP

CloseSession(s) ==
    /\ dheld = <<>>
    /\ sess[s] = "open"
    /\ sess' = [sess EXCEPT ![s] = "closed"]
    /\ Lbl(<<"endsession", s>>)
    /\ UNCHANGED <<asked, lsn, agentup, ch, up, down, dheld, fbad>>
    /\ FP

ClientAccepts == ClientFwd /\ (ClientGate = "request" => asked)

\* outcome of an attempt to open an agent channel
OpenOutcome(how) ==
    IF how \in {"api", "path"} /\ ServerGate /\ ~lsn THEN "prohibited"
    ELSE IF ~ClientAccepts THEN "disabled"
    ELSE IF ~agentup THEN "noagent"
    ELSE "open"

OpenAgent(c, how) ==
    /\ ch[c].st = "none" /\ \A d \in 1..(c-1) : ch[d].st # "none"
    /\ how \in Hows
    /\ (how = "path" => lsn)            \* no path to connect to otherwise
    /\ dheld = <<>>                     \* the open is answered on the same link
    /\ LET o == OpenOutcome(how) IN
       /\ ch' = [ch EXCEPT ![c] = [st |-> o, how |-> how]]
       /\ fbad' = fbad
            \cup (IF o = "open" /\ ~ClientFwd THEN {"unasked"} ELSE {})
            \cup (IF o = "open" /\ ~asked THEN {"beforerequest"} ELSE {})
            \cup (IF o = "open" /\ how # "rogue" /\ ~(ClientFwd /\ ServerFwd /\ asked)
                  THEN {"ungranted"} ELSE {})
       /\ Lbl(<<"openagent", c, how, o>>)
    /\ UNCHANGED <<sess, asked, lsn, agentup, up, down, dheld>>
    /\ FP

Live(c) == ch[c].st = "open"
AgentGone(c) == down[c].end = "close" \/ up[c].endgot = "close"
ServerGone(c) == up[c].end = "close" \/ down[c].endgot = "close"

\* the server-side end writes a unit
SrvWrite(c) ==
    /\ Live(c) /\ up[c].end = "no" /\ up[c].w < MaxW
    /\ down[c].endgot # "close"
    /\ up' = IF down[c].end = "close"       \* the agent has gone: dropped on the way
             THEN [up EXCEPT ![c].w = @ + 1, ![c].disc = @ + 1]
             ELSE [up EXCEPT ![c].w = @ + 1, ![c].held = @ + 1]
    /\ Lbl(<<"swrite", c>>)
    /\ UNCHANGED <<sess, asked, lsn, agentup, ch, down, dheld, fbad>>
    /\ FP

\* ... sends end of file (keeps reading) or closes (after its last write,
\* without waiting for anything)
SrvEnd(c, e) ==
    /\ Live(c) /\ up[c].end = "no" /\ down[c].endgot # "close"
    /\ up' = [up EXCEPT ![c].end = e,
                        ![c].endheld = IF RelayEof /\ down[c].end # "close"
                                       THEN e ELSE "no",
                        ![c].held = IF DropOnClose /\ e = "close" THEN 0 ELSE @]
    /\ Lbl(<<"send", c, e>>)
    /\ UNCHANGED <<sess, asked, lsn, agentup, ch, down, dheld, fbad>>
    /\ FP

\* n held units reach the agent; the end marker follows the last one
RelayUp(c, n) ==
    /\ Live(c) /\ n \in 1..up[c].held
    /\ up' = [up EXCEPT ![c].held = @ - n, ![c].got = @ + n]
    /\ Lbl(<<"relayup", c, n>>)
    /\ UNCHANGED <<sess, asked, lsn, agentup, ch, down, dheld, fbad>>
    /\ FP

RelayUpEnd(c) ==
    /\ Live(c) /\ up[c].held = 0 /\ up[c].endheld # "no"
    /\ up' = [up EXCEPT ![c].endheld = "no", ![c].endgot = up[c].endheld]
    /\ Lbl(<<"relayupend", c>>)
    /\ UNCHANGED <<sess, asked, lsn, agentup, ch, down, dheld, fbad>>
    /\ FP

\* the agent writes a unit
AgtWrite(c) ==
    /\ Live(c) /\ down[c].end = "no" /\ down[c].w < MaxW
    /\ up[c].endgot # "close"            \* its connection is still there
    /\ IF up[c].end = "close"            \* the server end has gone: dropped
       THEN /\ down' = [down EXCEPT ![c].w = @ + 1, ![c].disc = @ + 1]
            /\ dheld' = dheld
       ELSE /\ down' = [down EXCEPT ![c].w = @ + 1]
            /\ dheld' = Append(dheld, <<c, "data">>)
    /\ Lbl(<<"awrite", c>>)
    /\ UNCHANGED <<sess, asked, lsn, agentup, ch, up, fbad>>
    /\ FP

\* ... half-closes or closes its connection
AgtEnd(c, e) ==
    /\ Live(c) /\ down[c].end = "no" /\ up[c].endgot # "close"
    /\ down' = [down EXCEPT ![c].end = e]
    /\ dheld' = IF RelayEof /\ up[c].end # "close"
                THEN Append(dheld, <<c, e>>) ELSE dheld
    /\ up' = IF e = "close"              \* what it has not read is gone with it
             THEN [up EXCEPT ![c].disc = @ + up[c].held, ![c].held = 0,
                             ![c].endheld = "no"]
             ELSE up
    /\ Lbl(<<"aend", c, e>>)
    /\ UNCHANGED <<sess, asked, lsn, agentup, ch, fbad>>
    /\ FP

\* everything held on the SSH link reaches the server side, in order
Count(c, kind) == Cardinality({j \in 1..Len(dheld) : dheld[j] = <<c, kind>>})
RelayDown ==
    /\ dheld # <<>>
    /\ down' = [c \in Chans |->
        [down[c] EXCEPT
           !.got = IF up[c].end = "close" THEN @ ELSE @ + Count(c, "data"),
           !.disc = IF up[c].end = "close" THEN @ + Count(c, "data") ELSE @,
           !.endgot = IF Count(c, "close") > 0 THEN "close"
                      ELSE IF Count(c, "eof") > 0 THEN "eof" ELSE @]]
    /\ dheld' = <<>>
    /\ Lbl(<<"relaydown">>)
    /\ UNCHANGED <<sess, asked, lsn, agentup, ch, up, fbad>>
    /\ FP

ToggleAgent ==
    /\ MaxToggle > 0 /\ dheld = <<>>
    /\ (agentup => \A c \in Chans : ch[c].st # "noagent")
    /\ \E c \in Chans : ch[c].st = "none"
    /\ agentup' = ~agentup
    /\ Lbl(<<"agentup", ~agentup>>)
    /\ UNCHANGED <<sess, asked, lsn, ch, up, down, dheld, fbad>>
    /\ FP

FwdNext ==
    \/ \E s \in Sessions : OpenSession(s) \/ CloseSession(s)
    \/ \E c \in Chans, h \in Hows : OpenAgent(c, h)
    \/ \E c \in Chans : SrvWrite(c) \/ AgtWrite(c) \/ RelayUpEnd(c)
    \/ \E c \in Chans, e \in Ends : SrvEnd(c, e) \/ AgtEnd(c, e)
    \/ \E c \in Chans, n \in 1..MaxW : RelayUp(c, n)
    \/ RelayDown
    \/ ToggleAgent

-----------------------------------------------------------------------------
Init ==
    /\ ClientInit /\ FwdInit /\ lbl = <<"init">> /\ log = <<>>

Next == ClientNext \/ FwdNext

Spec == Init /\ [][Next]_vars

\* liveness: the agent answers and delivers, connection attempts complete
FairSpec ==
    /\ Spec
    /\ \A i \in Callers : WF_vars(Internal(i)) /\ WF_vars(Reconnect(i))
    /\ WF_vars(AgentProcess("none", Units))
    /\ WF_vars(\E n \in 1..(Units * 2) : DeliverChunk(n))
    /\ WF_vars(DeliverEof)

-----------------------------------------------------------------------------
\* ---- properties, client part ----------------------------------------------
TypeOK ==
    /\ conn \in {"none", "open"} /\ holder \in 0..NC
    /\ \A i \in Callers : pc[i] \in {"idle", "wait", "locked", "conn", "sent", "done"}

\* each caller gets the answer to ITS request: the frame it consumed was
\* produced for its own serial - and therefore says what the agent's store
\* said when the agent handled that request (linearised in lock order)
OwnResponse ==
    \A i \in Callers : pc[i] = "done" => res[i].from \in {0, ser[i]}

\* a request is only written on a connection with nothing outstanding
NoStaleSend == "stalesend" \notin bad
\* ... and never on one that already reported an error
NoUseOfBroken == "usebroken" \notin bad
\* the lock: one caller at a time between acquire and release, FIFO
Mutex == UseLock => Cardinality(Busy) <= 1 /\ (Busy # {} => Busy = {holder})
Fifo == \A a, b \in 1..Len(queue) : a < b => ser[queue[a]] < ser[queue[b]]
\* lazily, at most once per call
ConnectOnce == \A i \in Callers : cc[i] <= 1
\* sign requests carry the flags of the algorithm selected last
FlagsRight == "flags" \notin bad
\* a signature names the key and flags of the request it answers
SignNamesKey ==
    \A i \in Callers :
        (pc[i] = "done" /\ res[i].k = "ok" /\ op[i].k = "sign") =>
            /\ res[i].key = op[i].key
            /\ res[i].fl = WantFlags(op[i].a)
\* every call ends (under FairSpec)
EveryCallEnds ==
    \A i \in Callers : (pc[i] \in {"wait", "locked", "conn", "sent"}) ~> (pc[i] = "done")

\* behaviour export: one line per state in which every call has ended
AllDone == \A i \in Callers : pc[i] \in {"idle", "done"}
EmitScript ==
    (Part = "client" /\ AllDone /\ ncalls = MaxCalls /\ ~InternalEnabled) =>
        PrintT(ToString(<<"SCRIPT", log,
                          [store |-> store, locked |-> locked, conn |-> conn]>>))
\* witnesses (expected violated = reachable)
NeverQueued == Len(queue) < 2
NeverLostThenOk ==
    ~(\E i, j \in Callers : i # j /\ pc[i] = "done" /\ pc[j] = "done" /\
        res[i].k = "lost" /\ res[j].k = "ok" /\ ser[j] > ser[i])
NeverCancelSent == ~(\E i \in Callers : res[i].k = "cancel" /\ orphans # {})
NeverRemovedThenFail ==
    ~(\E i \in Callers : pc[i] = "done" /\ res[i].k = "fail" /\
        op[i].k = "sign" /\ op[i].key \in InitStore /\ ~locked)

\* ---- properties, forwarding part ------------------------------------------
\* an agent channel is only ever open when the client's option is on
OpenOnlyIfEnabled == "unasked" \notin fbad
\* through the server's own interfaces: only when both options are on and a
\* session has asked
OpenOnlyIfGranted == "ungranted" \notin fbad
\* stricter reading (not the code's, not OpenSSH's): not before a request
OpenOnlyAfterRequest == "beforerequest" \notin fbad
\* FIFO, exactly once: every unit written is delivered, on its way, or was
\* dropped because the end it was meant for had closed
Conservation ==
    \A c \in Chans :
        /\ up[c].got + up[c].held + up[c].disc = up[c].w
        /\ down[c].got + Count(c, "data") + down[c].disc = down[c].w
NoUnjustDiscard ==
    \A c \in Chans :
        /\ (up[c].disc > 0 => down[c].end = "close")
        /\ (down[c].disc > 0 => up[c].end = "close")
\* an end marker is seen only after everything written before it
EndAfterData ==
    \A c \in Chans :
        /\ (up[c].endgot # "no" => up[c].got + up[c].disc = up[c].w)
        /\ (down[c].endgot # "no" => down[c].got + down[c].disc = down[c].w)
\* ... and it does arrive: closing either side ends the other
Quiet == dheld = <<>> /\ \A c \in Chans : up[c].held = 0 /\ up[c].endheld = "no"
CloseBoth ==
    Quiet => \A c \in Chans :
        /\ (up[c].end # "no" /\ down[c].end # "close" => up[c].endgot = up[c].end)
        /\ (down[c].end # "no" /\ up[c].end # "close" => down[c].endgot = down[c].end)

EmitFwd ==
    (Part = "fwd" /\ Quiet /\ \A c \in Chans : ch[c].st # "none") =>
        PrintT(ToString(<<"SCRIPT", log, [lsn |-> lsn]>>))

NeverOpen == \A c \in Chans : ch[c].st # "open"
NeverRefused == \A c \in Chans : ch[c].st \notin {"prohibited", "disabled", "noagent"}
NeverDiscard == \A c \in Chans : up[c].disc = 0 /\ down[c].disc = 0
NeverBothEnds == \A c \in Chans : ~(up[c].endgot # "no" /\ down[c].endgot # "no")
=============================================================================
