---------------------------- MODULE RecvMachine ----------------------------
(***************************************************************************)
(* The receive side of the SSH transport in asyncssh under arbitrary       *)
(* segmentation of the byte stream: connection.py data_received ->         *)
(* _recv_data (while inpbuf and handler()), the handlers _recv_version,    *)
(* _recv_pkthdr (needs one cipher block to learn the length) and           *)
(* _recv_packet (needs the rest incl. MAC), and the "asynchronous handler  *)
(* parks the parser" path (_process_kexinit; resumed by                    *)
(* _finish_recv_packet(is_async), which re-runs _recv_data on what was     *)
(* buffered meanwhile).                                                    *)
(* The stream is a sequence of packets; packet i occupies Len[i] units,    *)
(* the first Hdr units being its header block. Packet 1 plays the version  *)
(* line (terminated by its last unit).                                     *)
(***************************************************************************)
EXTENDS Naturals, Sequences, FiniteSets, TLC

CONSTANTS Lens,      \* sequence of packet lengths (units), each > Hdr
          Hdr,       \* header block size
          Async,     \* set of packet indices whose handler is asynchronous
          RerunAfterAsync  \* TRUE: the code re-runs the parser when the async handler ends

\* packet-length vectors selectable from a cfg file (Lens <- LensA)
LensA == <<3, 4, 3, 4>>
LensB == <<3, 3, 5, 3, 4>>
LensC == <<3, 4, 3>>

N == Len(Lens)
RECURSIVE Sum(_, _)
Sum(s, k) == IF k = 0 THEN 0 ELSE s[k] + Sum(s, k - 1)
Total == Sum(Lens, N)

VARIABLES
    sentpos,    \* units handed to data_received so far
    buf,        \* units buffered and not yet consumed by a handler
    cur,        \* index of the packet being parsed
    phase,      \* "hdr" | "body" | "parked"
    dispatched, \* packets handed to their handlers, in order
    cuts,       \* history: the stream offsets at which chunks ended
    lbl

vars == <<sentpos, buf, cur, phase, dispatched, cuts, lbl>>
view == <<sentpos, buf, cur, phase, dispatched>>

Init == /\ sentpos = 0 /\ buf = 0 /\ cur = 1 /\ phase = "hdr"
        /\ dispatched = <<>> /\ cuts = <<>> /\ lbl = <<"init">>

\* run the parser loop to its fixpoint: returns <<buf, cur, phase, dispatched>>
RECURSIVE Parse(_, _, _, _)
Parse(b, c, ph, d) ==
    IF c > N \/ ph = "parked" THEN <<b, c, ph, d>>
    ELSE IF ph = "hdr"
         THEN IF b >= Hdr THEN Parse(b, c, "body", d) ELSE <<b, c, ph, d>>
         ELSE \* body: the whole packet must be buffered
              IF b >= Lens[c]
              THEN IF c \in Async
                   THEN <<b - Lens[c], c + 1, "parked", Append(d, c)>>
                   ELSE Parse(b - Lens[c], c + 1, "hdr", Append(d, c))
              ELSE <<b, c, ph, d>>

Chunk(n) ==
    /\ n >= 1 /\ sentpos + n <= Total
    /\ sentpos' = sentpos + n
    /\ LET r == Parse(buf + n, cur, phase, dispatched) IN
       /\ buf' = r[1] /\ cur' = r[2] /\ phase' = r[3] /\ dispatched' = r[4]
    /\ cuts' = Append(cuts, sentpos + n)
    /\ lbl' = <<"chunk", n>>

AsyncDone ==
    /\ phase = "parked"
    /\ LET r == IF RerunAfterAsync THEN Parse(buf, cur, "hdr", dispatched)
                ELSE <<buf, cur, "hdr", dispatched>> IN
       /\ buf' = r[1] /\ cur' = r[2] /\ phase' = r[3] /\ dispatched' = r[4]
    /\ lbl' = <<"asyncdone">>
    /\ UNCHANGED <<sentpos, cuts>>

Next == AsyncDone \/ \E n \in 1..Total : Chunk(n)
Spec == Init /\ [][Next]_vars
LiveSpec == Spec /\ WF_vars(AsyncDone) /\ WF_vars(\E n \in 1..Total : Chunk(n))

\* exactly once, in order
InOrderOnce == dispatched = [i \in 1..Len(dispatched) |-> i]
\* a packet is dispatched only when all of its bytes have arrived
NotEarly == \A i \in 1..Len(dispatched) : Sum(Lens, dispatched[i]) <= sentpos
\* when everything has arrived and no handler is pending, everything was dispatched
AllDispatched == (sentpos = Total /\ phase # "parked") => Len(dispatched) = N
Eventually == <>(Len(dispatched) = N)
=============================================================================
