------------------------------- MODULE Config -------------------------------
(***************************************************************************)
(* How an OpenSSH configuration file resolves to option values, as         *)
(* ssh_config(5)/sshd_config(5) describe it and as asyncssh/config.py      *)
(* (SSHConfig.parse, _match, _include, _set_*/_append_*, _expand_val,      *)
(* SSHClientConfig, SSHServerConfig._set_tokens) implements it.            *)
(*                                                                         *)
(* The module is an interpreter over abstract programs: a main file of     *)
(* directives taken from DirMenu and two include files "A" and "B"         *)
(* (Include A reads A; Include G is the glob a.conf,b.conf).  Every         *)
(* (program, target) pair is an INITIAL STATE; invariants state the         *)
(* properties of the rule and, with Emit, print the case and the predicted  *)
(* option map for replay against the real loader.                           *)
(*                                                                         *)
(* Three places where the code is known to depart from the rule are         *)
(* parameters of the evaluation (flags a, b, c), so that the same run also  *)
(* prints what each departure would produce (used only to give an observed  *)
(* violation a precise name):                                               *)
(*   a  the second (canonical/final) pass starts from scratch instead of    *)
(*      keeping the values obtained in the first pass                       *)
(*   b  percent/env expansion is performed at the end of every file read    *)
(*      (and again later) instead of once on the final values               *)
(*   c  the files matched by an Include glob are read in reverse order      *)
(* Strings are tuples of one-character strings.                             *)
(***************************************************************************)
EXTENDS Integers, Sequences, FiniteSets, TLC

CONSTANTS
    Mode,          \* "cli" | "srv"
    Emit,
    MaxMain,       \* directives in the main file
    MaxInc,        \* directives in include file A (B has at most 1)
    MainSel,       \* menu indices usable in the main file
    IncSel,        \* menu indices usable in the include files
    TgtSel,        \* target indices
    SampleMod, SampleRem,
    ListFirstWins, \* sensitivity: list options keep only the first value (WRONG)
    NegNoop,       \* sensitivity: '!' in Match is ignored (WRONG)
    SpliceLeaks,   \* sensitivity: Include does not restore the match state (WRONG)
    NegSticky,     \* sensitivity: a '!' also negates the criteria after it (WRONG)
    NoneUnset,     \* sensitivity: a first value "none" counts as "not set yet" (WRONG)
    ValSel,        \* value-class programs: option groups (indices into VNames; {} = not this shape)
    ShapeSel,      \* value-class programs: shapes 1..6
    GenSel,        \* generated-line programs: which block of generated lines ({} = free programs)
    PreSel,        \* generated-line programs: directive put before the line (0 = none)
    ExpSel,        \* expansion programs: {} = not this shape, else the user-line choices (0 = none)
    ExpandOrder,   \* "single" = the rule; "tokenv" / "envtok" = two passes (WRONG, see ExpandVal)
    CanonSel,      \* generated-line programs: canonicalisation settings put first (0 = none)
    ExecAlways,    \* sensitivity: "exec" is run although an earlier criterion failed (WRONG)
    FinalShortCut, \* sensitivity: "final" only counts if the criteria before it hold (WRONG)
    MaxLex,        \* lex: longest argument text
    HashCutsWord,  \* sensitivity: an unquoted '#' ends the line also in the middle of a word (WRONG)
    SpellSel,      \* spelling programs: the contexts (1..4) in use; {} = not this shape
    RawFirstWordGate \* sensitivity: inside a non-matching block a line is kept only if its RAW
                     \* first blank-delimited word is host / match (WRONG: Host=pat is thrown away)

-----------------------------------------------------------------------------
Strs(A, lo, hi) == UNION {[1..n -> A] : n \in lo..hi}

RECURSIVE Join(_, _)
Join(ss, sep) == IF ss = <<>> THEN <<>>
                 ELSE IF Len(ss) = 1 THEN ss[1]
                 ELSE ss[1] \o sep \o Join(Tail(ss), sep)
RECURSIVE Flat(_)
Flat(ss) == IF ss = <<>> THEN <<>> ELSE Head(ss) \o Flat(Tail(ss))

RECURSIVE Wild(_, _)
Wild(p, s) ==
    IF p = <<>> THEN s = <<>>
    ELSE IF Head(p) = "*"
         THEN Wild(Tail(p), s) \/ (s # <<>> /\ Wild(p, Tail(s)))
    ELSE s # <<>> /\ (Head(p) = "?" \/ Head(p) = Head(s)) /\ Wild(Tail(p), Tail(s))

P(neg, t) == [neg |-> neg, t |-> t]
NameListMatch(pl, s) ==
    /\ \E i \in 1..Len(pl) : ~pl[i].neg /\ Wild(pl[i].t, s)
    /\ ~\E i \in 1..Len(pl) : pl[i].neg /\ Wild(pl[i].t, s)
PatChars(p) == (IF p.neg THEN <<"!">> ELSE <<>>) \o p.t

-----------------------------------------------------------------------------
(* names *)
ha == <<"h", "a">>
hb == <<"h", "b">>
ua == <<"u", "a">>
ub == <<"u", "b">>
LU == <<"@LU@">>                   \* the local user (one atom; real name substituted)
Canon(h) == h \o <<".", "c">>      \* canonical name of host h (CanonicalDomains c)

(* targets: host, user given by the caller (<<>> = none), mode *)
TgtMenu == <<
    [host |-> ha, user |-> <<>>, mode |-> "plain"],     \* 1
    [host |-> hb, user |-> <<>>, mode |-> "plain"],     \* 2
    [host |-> ha, user |-> ua,   mode |-> "plain"],     \* 3
    [host |-> hb, user |-> ub,   mode |-> "plain"],     \* 4
    [host |-> ha, user |-> <<>>, mode |-> "canon"],     \* 5
    [host |-> hb, user |-> ua,   mode |-> "canon"],     \* 6
    [host |-> <<"h", ".", "a">>, user |-> <<>>, mode |-> "plain"],  \* 7 (a dot: CanonicalizeMaxDots)
    [host |-> ha, user |-> <<"u", "$", "{", "C", "F", "G", "V", "}">>, mode |-> "plain"],  \* 8 user with ${VAR}
    [host |-> ha, user |-> <<"a", "%", "h">>, mode |-> "plain"],                          \* 9 user with a token
    [host |-> <<"h", "%", "%", "x">>, user |-> <<>>, mode |-> "plain"]                    \* 10 host with %%
>>

-----------------------------------------------------------------------------
(* directives *)
Blank == [k |-> "", pl |-> <<>>, cr |-> <<>>, n |-> "", v |-> <<>>, sp |-> 0, f |-> "",
          ty |-> "", den |-> <<>>]
(* an option whose VALUE CLASS is the point: text as written, and what it denotes.      *)
(* ty: "set" first obtained value wins (also when it denotes "none");                     *)
(*     "app" values accumulate, "none" adds nothing                                       *)
TV(n, ty, txt, den) == [Blank EXCEPT !.k = "topt", !.n = n, !.ty = ty, !.v = txt, !.den = den]
NONE == <<"none">>
Str(x) == <<"s", x>>
HostD(pl)     == [Blank EXCEPT !.k = "host", !.pl = pl]
MatchD(cr)    == [Blank EXCEPT !.k = "match", !.cr = cr]
OptD(n, v, sp) == [Blank EXCEPT !.k = "opt", !.n = n, !.v = v, !.sp = sp]
IncD(f)       == [Blank EXCEPT !.k = "inc", !.f = f]
Cr(neg, c, pl) == [neg |-> neg, c |-> c, pl |-> pl]
Arg(c) == c \in {"host", "originalhost", "user", "localuser", "tagged", "address"}

c2201 == <<"2", "2", "0", "1">>
c2202 == <<"2", "2", "0", "2">>
StaticMenu == <<
    HostD(<<P(FALSE, ha)>>),                                         \*  1 Host ha
    HostD(<<P(FALSE, hb)>>),                                         \*  2 Host hb
    HostD(<<P(FALSE, <<"*">>)>>),                                    \*  3 Host *
    HostD(<<P(FALSE, <<"h", "?">>), P(TRUE, hb)>>),                  \*  4 Host h? !hb
    HostD(<<P(TRUE, ha)>>),                                          \*  5 Host !ha
    HostD(<<P(FALSE, hb), P(FALSE, <<"h", "a", "*">>)>>),            \*  6 Host hb ha*
    MatchD(<<Cr(FALSE, "all", <<>>)>>),                              \*  7 Match all
    MatchD(<<Cr(FALSE, "host", <<P(FALSE, ha)>>)>>),                 \*  8 Match host ha
    MatchD(<<Cr(FALSE, "host", <<P(FALSE, <<"r", "*">>)>>)>>),       \*  9 Match host r*
    MatchD(<<Cr(FALSE, "originalhost", <<P(FALSE, ha)>>)>>),         \* 10 Match originalhost ha
    MatchD(<<Cr(FALSE, "user", <<P(FALSE, ua)>>)>>),                 \* 11 Match user ua
    MatchD(<<Cr(TRUE, "user", <<P(FALSE, ua)>>)>>),                  \* 12 Match !user ua
    MatchD(<<Cr(FALSE, "localuser", <<P(FALSE, LU)>>)>>),            \* 13 Match localuser LU
    MatchD(<<Cr(TRUE, "localuser", <<P(FALSE, LU)>>)>>),             \* 14 Match !localuser LU
    MatchD(<<Cr(FALSE, "host", <<P(FALSE, ha)>>),
             Cr(FALSE, "user", <<P(FALSE, <<"u", "?">>)>>)>>),       \* 15 Match host ha user u?
    MatchD(<<Cr(TRUE, "host", <<P(FALSE, hb)>>),
             Cr(TRUE, "user", <<P(FALSE, ub)>>)>>),                  \* 16 Match !host hb !user ub
    MatchD(<<Cr(FALSE, "canonical", <<>>)>>),                        \* 17 Match canonical
    MatchD(<<Cr(TRUE, "canonical", <<>>)>>),                         \* 18 Match !canonical
    MatchD(<<Cr(FALSE, "final", <<>>)>>),                            \* 19 Match final
    MatchD(<<Cr(TRUE, "final", <<>>)>>),                             \* 20 Match !final
    MatchD(<<Cr(FALSE, "final", <<>>),
             Cr(FALSE, "host", <<P(FALSE, <<"r", "*">>)>>)>>),       \* 21 Match final host r*
    MatchD(<<Cr(FALSE, "tagged", <<P(FALSE, <<"t", "1">>)>>)>>),     \* 22 Match tagged t1
    MatchD(<<Cr(TRUE, "all", <<>>)>>),                               \* 23 Match !all
    MatchD(<<Cr(FALSE, "host", <<P(TRUE, ha), P(FALSE, <<"h", "*">>)>>)>>), \* 24 Match host !ha,h*
    OptD("Port", <<c2201>>, 1),                                      \* 25 Port 2201
    OptD("Port", <<c2202>>, 2),                                      \* 26 Port=2202
    OptD("User", <<<<"u", "c">>>>, 1),                               \* 27 User uc
    OptD("User", <<<<"u", "a">>>>, 3),                               \* 28 User = ua
    OptD("Hostname", <<<<"r", "a">>>>, 1),                           \* 29 Hostname ra
    OptD("Hostname", <<<<"r", "%", "h">>>>, 2),                      \* 30 Hostname=r%h
    OptD("Hostname", <<hb>>, 4),                                     \* 31 Hostname "hb"
    OptD("IdentityFile", <<<<"/", "k", "/", "1">>>>, 1),             \* 32 IdentityFile /k/1
    OptD("IdentityFile", <<<<"/", "k", "/", "%", "h", "-", "%", "r", "-", "%", "p",
                             "-", "%", "n", "-", "%", "u", "-", "%", "%", "h">>>>, 2), \* 33 IdentityFile=/k/%h-%r-%p-%n-%u-%%h
    OptD("IdentityFile", <<<<"/", "k", "/", "a", " ", "b">>>>, 4),   \* 34 IdentityFile "/k/a b"
    OptD("IdentityFile", <<<<"/", "k", "/", "2">>>>, 5),             \* 35 identityfile /k/2
    OptD("SendEnv", <<<<"A">>>>, 1),                                 \* 36 SendEnv A
    OptD("SendEnv", <<<<"B">>, <<"C">>>>, 1),                        \* 37 SendEnv B C
    OptD("SendEnv", <<<<"A">>>>, 6),                                 \* 38 SendEnv =A
    OptD("UserKnownHostsFile", <<<<"/", "n", "/", "1">>, <<"/", "n", "/", "2">>>>, 1), \* 39
    OptD("UserKnownHostsFile", <<<<"/", "n", "/", "3">>>>, 7),       \* 40 UserKnownHostsFile= /n/3
    OptD("Tag", <<<<"t", "1">>>>, 1),                                \* 41 Tag t1
    OptD("IdentityFile", <<<<"/", "k", "/", "$", "{", "C", "F", "G", "V", "}", "%", "h">>>>, 1), \* 42 IdentityFile /k/${CFGV}%h
    IncD("A"),                                                       \* 43 Include <A>
    IncD("G"),                                                       \* 44 Include <dir>/*.conf
    OptD("Port", <<c2202>>, 5),                                      \* 45 port 2202
    \* ---- server side ----
    OptD("AuthorizedKeysFile", <<<<"@BASE@", "/", "%", "u", "/", "a", "k">>>>, 1),        \* 46
    OptD("AuthorizedKeysFile", <<<<"@BASE@", "/", "%", "u", ".", "k">>,
                                 <<"@BASE@", "/", "c", "o", "m">>>>, 1),                  \* 47
    OptD("AuthorizedKeysFile", <<<<"@BASE@", "/", "s", "h">>>>, 2),                       \* 48
    OptD("AuthorizedKeysFile", <<<<"@BASE@", "/", "%", "%", "u", "/", "%", "u">>>>, 1),   \* 49
    MatchD(<<Cr(FALSE, "user", <<P(FALSE, <<"a">>)>>)>>),                                 \* 50 Match user a
    MatchD(<<Cr(FALSE, "user", <<P(TRUE, <<"a">>), P(FALSE, <<"*">>)>>)>>),               \* 51 Match user !a,*
    MatchD(<<Cr(TRUE, "host", <<P(FALSE, hb)>>)>>),                                       \* 52 Match !host hb
    MatchD(<<Cr(FALSE, "address", <<P(FALSE, <<"1", "0", ".", "*">>)>>)>>)                \* 53 Match address 10.*
>>
NStatic == Len(StaticMenu)

(* Generated Host / Match lines: every pair of criteria (patterns) in every   *)
(* negation placement, so that with the targets each criterion is true and    *)
(* false on its own (pos-pos, neg-pos, pos-neg, neg-neg x TT, TF, FT, FF).     *)
GenC == <<                                         \* client criteria
    Cr(FALSE, "host", <<P(FALSE, ha)>>),
    Cr(FALSE, "originalhost", <<P(FALSE, hb)>>),
    Cr(FALSE, "user", <<P(FALSE, ua)>>),
    Cr(FALSE, "user", <<P(FALSE, <<"u", "?">>)>>),
    Cr(FALSE, "localuser", <<P(FALSE, LU)>>),
    Cr(FALSE, "localuser", <<P(FALSE, <<"x">>)>>),
    Cr(FALSE, "tagged", <<P(FALSE, <<"t", "1">>)>>),
    Cr(FALSE, "canonical", <<>>)
>>
GenS == <<                                         \* server criteria
    Cr(FALSE, "user", <<P(FALSE, <<"a">>)>>),
    Cr(FALSE, "user", <<P(FALSE, <<"b">>)>>),
    Cr(FALSE, "address", <<P(FALSE, <<"1", "0", ".", "*">>)>>),
    Cr(FALSE, "address", <<P(FALSE, <<"1", "1", ".", "*">>)>>),
    Cr(FALSE, "host", <<P(FALSE, ha)>>),
    Cr(FALSE, "host", <<P(FALSE, hb)>>)
>>
GenT == <<GenC[1], GenC[4], GenC[2]>>              \* three-criteria lines
GenH == <<ha, hb, <<"h", "?">>, <<"*">>>>          \* Host patterns
WithNeg(cr, n) == [cr EXCEPT !.neg = (n = 1)]
Gen2(M) ==
    LET K == Len(M) IN
    [i \in 1..(4 * K * K) |->
        LET x == i - 1 IN
        MatchD(<<WithNeg(M[x \div (4 * K) + 1], (x \div (2 * K)) % 2),
                 WithNeg(M[((x \div 2) % K) + 1], x % 2)>>)]
Gen3(M) ==
    LET K == Len(M) IN
    [i \in 1..(8 * K * K * K) |->
        LET x == i - 1
            nb == x % 8
            ci == x \div 8
        IN  MatchD(<<WithNeg(M[ci \div (K * K) + 1], nb \div 4),
                     WithNeg(M[((ci \div K) % K) + 1], (nb \div 2) % 2),
                     WithNeg(M[(ci % K) + 1], nb % 2)>>)]
GenHost ==
    LET K == Len(GenH) IN
    [i \in 1..(4 * K * K) |->
        LET x == i - 1 IN
        HostD(<<P((x \div (2 * K)) % 2 = 1, GenH[x \div (4 * K) + 1]),
                P(x % 2 = 1, GenH[((x \div 2) % K) + 1])>>)]
(* Lines whose value class matters (block 5).  Text exactly as written after the keyword. *)
cnone == <<"n", "o", "n", "e">>
L0 == <<"l">>
TypedMenu == <<
    \* ---- client: _set_string ("none" -> no value, and it is a first value like any other)
    TV("ProxyJump", "set", <<"none">>, NONE),
    TV("ProxyJump", "set", <<"None">>, NONE),
    TV("ProxyJump", "set", <<"bastion">>, Str("bastion")),
    TV("ProxyJump", "set", <<"jump2">>, Str("jump2")),
    TV("ProxyJump", "set", <<"\"\"">>, Str("")),
    TV("HostKeyAlias", "set", <<"none">>, NONE),
    TV("HostKeyAlias", "set", <<"NONE">>, NONE),
    TV("HostKeyAlias", "set", <<"alias1">>, Str("alias1")),
    TV("HostKeyAlias", "set", <<"alias2">>, Str("alias2")),
    TV("BindAddress", "set", <<"none">>, NONE),
    TV("BindAddress", "set", <<"10.0.0.9">>, Str("10.0.0.9")),
    TV("BindAddress", "set", <<"10.0.0.8">>, Str("10.0.0.8")),
    TV("IdentityAgent", "set", <<"none">>, NONE),
    TV("IdentityAgent", "set", <<"/ag/1">>, Str("/ag/1")),
    TV("IdentityAgent", "set", <<"\"/ag/2\"">>, Str("/ag/2")),
    TV("Ciphers", "set", <<"aes128-ctr">>, Str("aes128-ctr")),
    TV("Ciphers", "set", <<"+aes128-cbc">>, Str("+aes128-cbc")),
    TV("Ciphers", "set", <<"-aes128-ctr">>, Str("-aes128-ctr")),
    TV("Ciphers", "set", <<"^aes256-ctr">>, Str("^aes256-ctr")),
    TV("KexAlgorithms", "set", <<"curve25519-sha256">>, Str("curve25519-sha256")),
    TV("KexAlgorithms", "set", <<"+diffie-hellman-group14-sha256">>, Str("+diffie-hellman-group14-sha256")),
    \* ---- booleans and friends
    TV("Compression", "set", <<"yes">>, <<"b", "1">>),
    TV("Compression", "set", <<"no">>, <<"b", "0">>),
    TV("Compression", "set", <<"Yes">>, <<"b", "1">>),
    TV("PasswordAuthentication", "set", <<"yes">>, <<"b", "1">>),
    TV("PasswordAuthentication", "set", <<"no">>, <<"b", "0">>),
    TV("PasswordAuthentication", "set", <<"true">>, <<"b", "1">>),
    TV("PasswordAuthentication", "set", <<"false">>, <<"b", "0">>),
    TV("PasswordAuthentication", "set", <<"\"No\"">>, <<"b", "0">>),
    TV("ForwardAgent", "set", <<"yes">>, <<"b", "1">>),
    TV("ForwardAgent", "set", <<"no">>, <<"b", "0">>),
    TV("ForwardAgent", "set", <<"/ag/sock">>, Str("/ag/sock")),
    TV("AddressFamily", "set", <<"any">>, <<"e", "any">>),
    TV("AddressFamily", "set", <<"inet">>, <<"e", "inet">>),
    TV("AddressFamily", "set", <<"INET6">>, <<"e", "inet6">>),
    TV("RequestTTY", "set", <<"yes">>, <<"b", "1">>),
    TV("RequestTTY", "set", <<"no">>, <<"b", "0">>),
    TV("RequestTTY", "set", <<"force">>, Str("force")),
    TV("RequestTTY", "set", <<"auto">>, Str("auto")),
    TV("CanonicalizeHostname", "set", <<"no">>, <<"b", "0">>),
    TV("CanonicalizeHostname", "set", <<"yes">>, <<"b", "1">>),
    TV("CanonicalizeHostname", "set", <<"always">>, Str("always")),
    \* ---- numbers (a value equal to the default is a value)
    TV("ConnectTimeout", "set", <<"5">>, <<"i", "5">>),
    TV("ConnectTimeout", "set", <<"10">>, <<"i", "10">>),
    TV("ServerAliveInterval", "set", <<"0">>, <<"i", "0">>),
    TV("ServerAliveInterval", "set", <<"15">>, <<"i", "15">>),
    TV("ServerAliveInterval", "set", <<"=30">>, <<"i", "30">>),
    TV("ServerAliveCountMax", "set", <<"3">>, <<"i", "3">>),
    TV("ServerAliveCountMax", "set", <<"7">>, <<"i", "7">>),
    TV("RekeyLimit", "set", <<"1G 1h">>, <<"r", "1g", "1h">>),
    TV("RekeyLimit", "set", <<"2G">>, <<"r", "2g", "()">>),
    TV("RekeyLimit", "set", <<"default none">>, <<"r", "()", "None">>),
    TV("RekeyLimit", "set", <<"default">>, <<"r", "()", "()">>),
    \* ---- lists: set once / accumulating
    TV("SetEnv", "set", <<"A=1">>, <<"l", "A=1">>),
    TV("SetEnv", "set", <<"B=2 C=3">>, <<"l", "B=2", "C=3">>),
    TV("GlobalKnownHostsFile", "set", <<"/n/8">>, <<"l", "/n/8">>),
    TV("GlobalKnownHostsFile", "set", <<"/n/9 /n/7">>, <<"l", "/n/9", "/n/7">>),
    TV("GlobalKnownHostsFile", "set", <<"none">>, L0),
    TV("CertificateFile", "app", <<"/c/1">>, Str("/c/1")),
    TV("CertificateFile", "app", <<"/c/2">>, Str("/c/2")),
    TV("CertificateFile", "app", <<"none">>, NONE),
    \* ---- the options with a field of their own: default-valued / "none" occurrences
    OptD("Port", <<<<"2", "2">>>>, 1),
    OptD("IdentityFile", <<cnone>>, 1),
    OptD("IdentityFile", <<<<"N", "o", "n", "e">>>>, 2),
    OptD("UserKnownHostsFile", <<cnone>>, 1),
    \* ---- server
    TV("PermitTTY", "set", <<"yes">>, <<"b", "1">>),
    TV("PermitTTY", "set", <<"no">>, <<"b", "0">>),
    TV("PermitTTY", "set", <<"True">>, <<"b", "1">>),
    TV("LoginGraceTime", "set", <<"30">>, <<"i", "30">>),
    TV("LoginGraceTime", "set", <<"120">>, <<"i", "120">>),
    TV("MACs", "set", <<"hmac-sha2-256">>, Str("hmac-sha2-256")),
    TV("MACs", "set", <<"+hmac-sha1">>, Str("+hmac-sha1")),
    TV("MACs", "set", <<"none">>, NONE),
    TV("HostKey", "app", <<"/hk/1">>, Str("/hk/1")),
    TV("HostKey", "app", <<"/hk/2">>, Str("/hk/2")),
    TV("HostKey", "app", <<"none">>, NONE),
    OptD("AuthorizedKeysFile", <<cnone>>, 1),
    \* ---- host name canonicalisation (client)
    TV("CanonicalDomains", "set", <<"c">>, <<"l", "c">>),
    TV("CanonicalDomains", "set", <<"d c">>, <<"l", "d", "c">>),
    TV("CanonicalDomains", "set", <<"d">>, <<"l", "d">>),
    TV("CanonicalizeMaxDots", "set", <<"0">>, <<"i", "0">>),
    TV("CanonicalizeFallbackLocal", "set", <<"no">>, <<"b", "0">>)
>>
IsNoneText(v) == Len(v) = 4 /\ v[1] \in {"n", "N"} /\ v[2] \in {"o", "O"} /\ v[3] \in {"n", "N"}
                            /\ v[4] \in {"e", "E"}
EMPTYL == <<<<"@EMPTY@">>>>        \* a list option set to "none": the empty list (not "unset")

(* Lines where the POSITION of final / canonical / all / exec among the criteria matters: *)
(* what the parser records while walking a line (a final pass is wanted; a command is     *)
(* run) next to criteria that are false in the first pass and true in the second          *)
(* (host *.c once the name is canonical), true then false (host ha), always true / false. *)
GenF == <<
    Cr(FALSE, "final", <<>>),
    Cr(FALSE, "canonical", <<>>),
    Cr(FALSE, "all", <<>>),
    Cr(FALSE, "host", <<P(FALSE, ha)>>),
    Cr(FALSE, "host", <<P(FALSE, <<"*", ".", "c">>)>>),
    Cr(FALSE, "host", <<P(FALSE, <<"h", "*">>)>>),
    Cr(FALSE, "user", <<P(FALSE, ua)>>),
    Cr(FALSE, "exect", <<>>),
    Cr(FALSE, "execf", <<>>)
>>
GenFT == <<GenF[1], GenF[5], GenF[8]>>
(* Expansion (block 8): every expanding option x templates made of literal / %token / %% *)
(* / ${VAR} pieces, with token values (user, host) and environment values that contain    *)
(* the same syntax again.                                                                 *)
Tpl == <<
    <<"/", "k", "/", "%", "r">>,                                                   \* /k/%r
    <<"/", "k", "/", "$", "{", "K", "E", "Y", "P", "}", "/", "%", "h">>,           \* /k/${KEYP}/%h
    <<"/", "k", "/", "$", "{", "P", "C", "T", "}">>,                               \* /k/${PCT}
    <<"/", "k", "/", "$", "{", "D", "B", "L", "}", "-", "%", "%", "-", "%", "h">>, \* /k/${DBL}-%%-%h
    <<"/", "k", "/", "$", "{", "N", "E", "S", "T", "}">>,                          \* /k/${NEST}
    <<"/", "k", "/", "%", "r", "-", "$", "{", "C", "F", "G", "V", "}">>,           \* /k/%r-${CFGV}
    <<"/", "k", "/", "$", "{", "D", "O", "L", "}", "$", "x", "%", "%", "h">>,      \* /k/${DOL}$x%%h
    <<"/", "k", "/", "%", "n", "}", "-", "%", "r", "}">>                           \* /k/%n}-%r}
>>
XOpts == <<"IdentityFile", "CertificateFile", "IdentityAgent", "ForwardAgent", "RemoteCommand",
           "ProxyCommand">>
ExpMenu ==
    [i \in 1..(Len(XOpts) * Len(Tpl)) |->
        LET o == XOpts[((i - 1) \div Len(Tpl)) + 1]
            t == Tpl[((i - 1) % Len(Tpl)) + 1]
        IN  IF o = "IdentityFile" THEN OptD(o, <<t>>, 1)
            ELSE TV(o, IF o = "CertificateFile" THEN "appx" ELSE "setx", t, t)] \o
    <<OptD("User", <<<<"a", "%", "h">>>>, 1),                                      \* User a%h
      OptD("User", <<<<"u", "$", "{", "C", "F", "G", "V", "}">>>>, 1),             \* User u${CFGV}
      OptD("User", <<<<"p", "%", "%", "q">>>>, 1),                                 \* User p%%q
      OptD("User", <<<<"w", "$", "{", "C", "F", "G", "V">>>>, 1),                  \* User w${CFGV  (closed by the template)
      \* server side
      OptD("AuthorizedKeysFile", <<<<"@BASE@", "/", "%", "u", "/", "$", "{", "K", "E", "Y", "P", "}">>>>, 1),
      OptD("AuthorizedKeysFile", <<<<"@BASE@", "/", "$", "{", "P", "C", "T", "}", "/", "%", "u">>>>, 1),
      OptD("AuthorizedKeysFile", <<<<"@BASE@", "/", "$", "{", "N", "E", "S", "T", "}", "/", "%", "%", "u">>,
                                   <<"@BASE@", "/", "$", "{", "D", "B", "L", "}", "%", "u">>>>, 1),
      OptD("AuthorizedKeysFile", <<<<"@BASE@", "/", "%", "u", "}", "$", "{", "C", "F", "G", "V", "}">>>>, 1)>>
NExpCli == Len(XOpts) * Len(Tpl)

GenBlocks == <<Gen2(GenC), Gen3(GenT), GenHost, Gen2(GenS), TypedMenu, Gen2(GenF), Gen3(GenFT), ExpMenu>>
DirMenu == StaticMenu \o GenBlocks[1] \o GenBlocks[2] \o GenBlocks[3] \o GenBlocks[4] \o GenBlocks[5]
                      \o GenBlocks[6] \o GenBlocks[7] \o GenBlocks[8]
NDir == Len(DirMenu)
RECURSIVE BlockStart(_)
BlockStart(b) == IF b = 1 THEN NStatic ELSE BlockStart(b - 1) + Len(GenBlocks[b - 1])
GenIdx(b) == (BlockStart(b) + 1)..(BlockStart(b) + Len(GenBlocks[b]))
VNames == <<"ProxyJump", "HostKeyAlias", "BindAddress", "IdentityAgent", "Ciphers", "KexAlgorithms",
            "Compression", "PasswordAuthentication", "ForwardAgent", "AddressFamily", "RequestTTY",
            "CanonicalizeHostname", "ConnectTimeout", "ServerAliveInterval", "ServerAliveCountMax",
            "RekeyLimit", "SetEnv", "GlobalKnownHostsFile", "CertificateFile",
            "Port", "User", "Hostname", "IdentityFile", "SendEnv", "UserKnownHostsFile",      \* 20..25
            "PermitTTY", "LoginGraceTime", "MACs", "HostKey", "AuthorizedKeysFile",          \* 26..30 server
            "BindAddress", "Ciphers", "PasswordAuthentication">>                             \* 31..33 server
(* all lines (static or typed) giving option VNames[g] a value *)
GroupOf(g) == {i \in (1..NStatic) \cup GenIdx(5) :
                 DirMenu[i].k \in {"opt", "topt"} /\ DirMenu[i].n = VNames[g]}

(* server side: user names presented by the (unauthenticated) client *)
SrvUsers == <<
    <<"a">>, <<"b">>, <<".", ".">>, <<"~", "a">>, <<"a", "/", "b">>, <<"a", "\\", "b">>,
    <<"$", "{", "X", "}">>, <<"C", ":", "a">>, <<"%", "u">>, <<"a", "%", "h">>, <<" ">>, <<>>,
    <<".", ".", "/", "o">>, <<"~">>, <<"%", "%">>, <<".">>, <<"a", ".", ".", "b">>,
    <<"x", "$", "{", "X", "}", "y">>, <<"$", "a">>, <<"c", ":">>, <<"/">>, <<"$", "{", "a">>,
    <<"a", "%">>, <<"%", "%", "u">>,
    <<"$", "{", "C", "F", "G", "V", "}">>, <<"x", "$", "{", "C", "F", "G", "V", "}">>
>>

LowerName(n) ==
    CASE n = "Port" -> "port" [] n = "User" -> "user" [] n = "Hostname" -> "hostname"
      [] n = "IdentityFile" -> "identityfile" [] n = "SendEnv" -> "sendenv"
      [] n = "UserKnownHostsFile" -> "userknownhostsfile" [] n = "Tag" -> "tag"
      [] OTHER -> n

(* text of a directive: tuple of strings, concatenated by the harness *)
DirText(d) ==
    CASE d.k = "host"  -> <<"Host">> \o Flat([i \in 1..Len(d.pl) |-> <<" ">> \o PatChars(d.pl[i])])
      [] d.k = "match" ->
           <<"Match">> \o
           Flat([i \in 1..Len(d.cr) |->
                   <<" ">> \o (IF d.cr[i].neg THEN <<"!">> ELSE <<>>) \o
                   (CASE d.cr[i].c = "exect" -> <<"exec \"echo t | tee -a @XLOG@ > /dev/null\"">>
                      [] d.cr[i].c = "execf" -> <<"exec \"echo f | tee -a @XLOG@ > /dev/null; false\"">>
                      [] OTHER -> <<d.cr[i].c>>) \o
                   (IF Arg(d.cr[i].c)
                    THEN <<" ">> \o Join([j \in 1..Len(d.cr[i].pl) |-> PatChars(d.cr[i].pl[j])], <<",">>)
                    ELSE <<>>)])
      [] d.k = "inc"   -> <<"Include ", IF d.f = "A" THEN "@INCA@" ELSE "@INCG@">>
      [] d.k = "topt"  -> <<d.n, " ">> \o d.v
      [] d.k = "opt"   ->
           LET rest == Flat([i \in 1..(Len(d.v) - 1) |-> <<" ">> \o d.v[i + 1]]) IN
           CASE d.sp = 1 -> <<d.n, " ">> \o d.v[1] \o rest
             [] d.sp = 2 -> <<d.n, "=">> \o d.v[1] \o rest
             [] d.sp = 3 -> <<d.n, " = ">> \o d.v[1] \o rest
             [] d.sp = 4 -> <<d.n, " \"">> \o d.v[1] \o <<"\"">> \o rest
             [] d.sp = 5 -> <<LowerName(d.n), " ">> \o d.v[1] \o rest
             [] d.sp = 6 -> <<d.n, " =">> \o d.v[1] \o rest
             [] d.sp = 7 -> <<d.n, "= ">> \o d.v[1] \o rest

-----------------------------------------------------------------------------
(* percent and environment expansion, on characters *)
ERR == "@ERR@"
TokVal(ch, tk) == IF ch \in DOMAIN tk THEN tk[ch] ELSE <<ERR>>
RECURSIVE ExpandTok(_, _)
ExpandTok(s, tk) ==
    IF s = <<>> THEN <<>>
    ELSE IF Head(s) = "%" /\ Len(s) >= 2
         THEN TokVal(s[2], tk) \o ExpandTok(SubSeq(s, 3, Len(s)), tk)
    ELSE <<Head(s)>> \o ExpandTok(Tail(s), tk)

(* the environment; the VALUES contain the syntax again: nothing substituted is rescanned *)
EnvVal(name) ==
    CASE name = <<"C", "F", "G", "V">> -> <<"e", "v">>
      [] name = <<"K", "E", "Y", "P">> -> <<"/", "v", "/", "%", "h">>              \* a token
      [] name = <<"P", "C", "T">>      -> <<"1", "0", "0", "%", "/", "t">>         \* a lone %
      [] name = <<"D", "B", "L">>      -> <<"a", "%", "%", "b">>                   \* %%
      [] name = <<"N", "E", "S", "T">> -> <<"$", "{", "C", "F", "G", "V", "}">>    \* ${VAR}
      [] name = <<"D", "O", "L">>      -> <<"a", "$", "b">>
      [] OTHER -> <<ERR>>
RECURSIVE ExpandEnv(_)
ExpandEnv(s) ==
    IF s = <<>> THEN <<>>
    ELSE IF Len(s) >= 3 /\ s[1] = "$" /\ s[2] = "{" /\ \E j \in 3..Len(s) : s[j] = "}"
         THEN LET j == CHOOSE x \in 3..Len(s) : s[x] = "}" /\ \A y \in 3..(x-1) : s[y] # "}"
              IN  EnvVal(SubSeq(s, 3, j - 1)) \o ExpandEnv(SubSeq(s, j + 1, Len(s)))
    ELSE <<Head(s)>> \o ExpandEnv(Tail(s))
(* THE RULE (ssh percent_dollar_expand): one pass from left to right over the value; *)
(* %c and ${NAME} are replaced, what was substituted is never looked at again         *)
RECURSIVE ExpandOne(_, _)
ExpandOne(s, tk) ==
    IF s = <<>> THEN <<>>
    ELSE IF Head(s) = "%" /\ Len(s) >= 2
         THEN TokVal(s[2], tk) \o ExpandOne(SubSeq(s, 3, Len(s)), tk)
    ELSE IF Len(s) >= 3 /\ s[1] = "$" /\ s[2] = "{" /\ \E j \in 3..Len(s) : s[j] = "}"
         THEN LET j == CHOOSE x \in 3..Len(s) : s[x] = "}" /\ \A y \in 3..(x-1) : s[y] # "}"
              IN  EnvVal(SubSeq(s, 3, j - 1)) \o ExpandOne(SubSeq(s, j + 1, Len(s)), tk)
    ELSE <<Head(s)>> \o ExpandOne(Tail(s), tk)
(* two-pass variants: "tokenv" tokens, then ${} over the result (token values are   *)
(* rescanned for ${}); "envtok" ${} first, then tokens (environment values are       *)
(* rescanned for %)                                                                   *)
ExpandVal(s, tk, fl) ==
    LET ord == IF fl.e THEN "tokenv" ELSE IF fl.o = "single" THEN "single" ELSE ExpandOrder
    IN  CASE ord = "single" -> ExpandOne(s, tk)
          [] ord = "tokenv" -> ExpandEnv(ExpandTok(s, tk))
          [] ord = "envtok" -> ExpandTok(ExpandEnv(s), tk)
HasErr(s) == \E i \in 1..Len(s) : s[i] = ERR

-----------------------------------------------------------------------------
(* interpreter *)
St0(user) == [m |-> TRUE, port |-> <<>>, user |-> user, hostname |-> <<>>, tag |-> <<>>,
              idf |-> <<>>, env |-> <<>>, ukh |-> <<>>, akf |-> <<>>, fin |-> FALSE,
              tx |-> <<>>,         \* tx: <<name, values>> of the other options that are expanded
              ex |-> <<>>,         \* ex: the "Match exec" commands run so far, in order
              lvl |-> "main",      \* which file is being read: "main", "inc", "b"
              t |-> <<>>]          \* t: <<name, denotation>> of the typed options, in order of first use

HostNow(st, cx) == IF st.hostname # <<>> THEN st.hostname ELSE cx.host
UserNow(st, cx) == IF st.user # <<>> THEN st.user ELSE LU
PortNow(st)     == IF st.port # <<>> THEN st.port ELSE <<"2", "2">>

Tokens(st, cx) ==
    IF cx.srv THEN ("%" :> <<"%">>) @@ ("u" :> cx.ruser)
    ELSE ("%" :> <<"%">>) @@ ("h" :> HostNow(st, cx)) @@ ("p" :> PortNow(st)) @@
         ("r" :> UserNow(st, cx)) @@ ("n" :> cx.host) @@ ("u" :> LU)

CritVal(cr, st, cx) ==
    CASE cr.c = "all"          -> TRUE
      [] cr.c = "canonical"    -> cx.canonical
      [] cr.c = "final"        -> cx.final
      [] cr.c = "host"         -> NameListMatch(cr.pl, IF cx.srv THEN cx.host ELSE HostNow(st, cx))
      [] cr.c = "originalhost" -> NameListMatch(cr.pl, cx.host)
      [] cr.c = "user"         -> NameListMatch(cr.pl, IF cx.srv THEN cx.ruser ELSE UserNow(st, cx))
      [] cr.c = "localuser"    -> NameListMatch(cr.pl, LU)
      [] cr.c = "tagged"       -> NameListMatch(cr.pl, st.tag)
      [] cr.c = "exect"        -> TRUE
      [] cr.c = "execf"        -> FALSE
      [] cr.c = "address"      -> NameListMatch(cr.pl, <<"1", "0", ".", "0", ".", "0", ".", "4">>)

(* criteria are taken left to right, as the code does *)
RECURSIVE CondJ(_, _, _, _, _)
CondJ(crs, matching, seenNeg, st, cx) ==
    IF crs = <<>> THEN matching
    ELSE LET r == CritVal(Head(crs), st, cx)
             neg == IF NegNoop THEN FALSE
                    ELSE Head(crs).neg \/ (NegSticky /\ seenNeg)
         IN  CondJ(Tail(crs), matching /\ (r # neg), seenNeg \/ Head(crs).neg, st, cx)
CondI(crs, matching, st, cx) == CondJ(crs, matching, FALSE, st, cx)
HasFinal(crs) == \E i \in 1..Len(crs) : crs[i].c = "final"
(* what walking the line records, besides its truth: *)
Before(crs, k, st, cx) == \A j \in 1..(k - 1) : CritVal(crs[j], st, cx) # crs[j].neg
(* a final pass is wanted as soon as the word appears, wherever it stands *)
FinalSeen(crs, st, cx) ==
    IF FinalShortCut THEN \E k \in 1..Len(crs) : crs[k].c = "final" /\ Before(crs, k, st, cx)
    ELSE HasFinal(crs)
(* a command is run only if every criterion before it held *)
ExecRun(crs, st, cx) ==
    LET K == {k \in 1..Len(crs) : crs[k].c \in {"exect", "execf"}
                                  /\ (ExecAlways \/ Before(crs, k, st, cx))}
        RECURSIVE Asc(_)
        Asc(S) == IF S = {} THEN <<>>
                  ELSE LET m == CHOOSE x \in S : \A y \in S : x <= y IN <<crs[m].c>> \o Asc(S \ {m})
    IN  Asc(K)

Assign(st, d, cx) ==
    CASE d.n = "Port"     -> IF st.port = <<>> THEN [st EXCEPT !.port = d.v[1]] ELSE st
      [] d.n = "User"     -> IF st.user = <<>> THEN [st EXCEPT !.user = d.v[1]] ELSE st
      [] d.n = "Tag"      -> IF st.tag = <<>> THEN [st EXCEPT !.tag = d.v[1]] ELSE st
      [] d.n = "Hostname" ->
           IF st.hostname = <<>>
           THEN [st EXCEPT !.hostname = ExpandVal(d.v[1], ("%" :> <<"%">>) @@ ("h" :> cx.host), cx.flags)]
           ELSE st
      [] d.n = "IdentityFile" ->
           IF IsNoneText(d.v[1]) THEN st            \* "none" adds no file
           ELSE IF ListFirstWins /\ st.idf # <<>> THEN st ELSE [st EXCEPT !.idf = Append(@, d.v[1])]
      [] d.n = "SendEnv"  ->
           IF ListFirstWins /\ st.env # <<>> THEN st ELSE [st EXCEPT !.env = @ \o d.v]
      [] d.n = "UserKnownHostsFile" ->
           IF st.ukh = <<>> THEN [st EXCEPT !.ukh = IF IsNoneText(d.v[1]) THEN EMPTYL ELSE d.v] ELSE st
      [] d.n = "AuthorizedKeysFile" ->
           IF st.akf = <<>> THEN [st EXCEPT !.akf = IF IsNoneText(d.v[1]) THEN EMPTYL ELSE d.v] ELSE st

TAssign(st, d) ==
    LET at == {i \in 1..Len(st.t) : st.t[i][1] = d.n}
        k  == IF at = {} THEN 0 ELSE CHOOSE i \in at : TRUE
    IN  IF d.ty = "app"
        THEN IF d.den = NONE
             THEN (IF k = 0 THEN [st EXCEPT !.t = Append(@, <<d.n, L0>>)] ELSE st)
             ELSE IF k = 0 THEN [st EXCEPT !.t = Append(@, <<d.n, <<"l", d.den[2]>>>>)]
             ELSE IF ListFirstWins THEN st
             ELSE [st EXCEPT !.t[k] = <<d.n, Append(st.t[k][2], d.den[2])>>]
        ELSE IF k = 0 THEN [st EXCEPT !.t = Append(@, <<d.n, d.den>>)]
        ELSE IF NoneUnset /\ st.t[k][2] = NONE THEN [st EXCEPT !.t[k] = <<d.n, d.den>>]
        ELSE st

ExpandAll(st, cx) ==
    LET tk == Tokens(st, cx) IN
    [st EXCEPT !.idf = [i \in 1..Len(st.idf) |-> ExpandVal(st.idf[i], tk, cx.flags)],
               !.akf = [i \in 1..Len(st.akf) |-> ExpandVal(st.akf[i], tk, cx.flags)],
               !.tx  = [i \in 1..Len(st.tx) |->
                          <<st.tx[i][1], [j \in 1..Len(st.tx[i][2]) |->
                                            ExpandVal(st.tx[i][2][j], tk, cx.flags)]>>]]

(* expanded options other than IdentityFile: "setx" first value wins ("none": no value), *)
(* "appx" values accumulate ("none" adds nothing)                                          *)
TXAssign(st, d) ==
    LET at == {i \in 1..Len(st.tx) : st.tx[i][1] = d.n}
        k  == IF at = {} THEN 0 ELSE CHOOSE i \in at : TRUE
        v  == IF IsNoneText(d.den) THEN <<>> ELSE <<d.den>>
    IN  IF k = 0 THEN [st EXCEPT !.tx = Append(@, <<d.n, v>>)]
        ELSE IF d.ty = "appx" THEN [st EXCEPT !.tx[k] = <<d.n, st.tx[k][2] \o v>>]
        ELSE st

RECURSIVE RunLines(_, _, _, _)
RECURSIVE RunFiles(_, _, _, _)
RunLines(lines, st, cx, prog) ==
    IF lines = <<>> THEN st
    ELSE LET d == DirMenu[Head(lines)]
             pos == Len(prog.main) - Len(lines) + 1
             \* the wrong gate: keyword=value spellings of a block line are not recognised
             gone == /\ RawFirstWordGate /\ d.k \in {"host", "match"} /\ ~st.m
                     /\ st.lvl = "main" /\ prog.ms # <<>> /\ prog.ms[pos] \in {2, 4}
             st2 == IF gone THEN st
                    ELSE IF d.k = "host" THEN [st EXCEPT !.m = NameListMatch(d.pl, cx.host)]
                    ELSE IF d.k = "match"
                         THEN [st EXCEPT !.m = CondI(d.cr, TRUE, st, cx),
                                         !.fin = @ \/ FinalSeen(d.cr, st, cx),
                                         !.ex = @ \o ExecRun(d.cr, st, cx)]
                    ELSE IF ~st.m THEN st
                    ELSE IF d.k = "inc"
                         THEN LET files == IF d.f = "A" THEN <<prog.a>>
                                           ELSE IF cx.flags.c THEN <<prog.b, prog.a>>
                                           ELSE <<prog.a, prog.b>>
                                  after == RunFiles(files, st, cx, prog)
                              IN  IF SpliceLeaks THEN [after EXCEPT !.lvl = st.lvl]
                                  ELSE [after EXCEPT !.m = TRUE, !.lvl = st.lvl]
                    ELSE IF d.k = "topt" /\ d.ty \in {"setx", "appx"} THEN TXAssign(st, d)
                    ELSE IF d.k = "topt" THEN TAssign(st, d)
                    ELSE Assign(st, d, cx)
         IN  RunLines(Tail(lines), st2, cx, prog)
RunFiles(files, st, cx, prog) ==
    IF files = <<>> THEN st
    ELSE LET s1 == RunLines(Head(files), [st EXCEPT !.m = TRUE, !.lvl = "inc"], cx, prog)
             s2 == IF cx.flags.b THEN ExpandAll(s1, cx) ELSE s1
         IN  RunFiles(Tail(files), s2, cx, prog)

(* prog.x = "list": two configuration files given as a list (main, then b);           *)
(* prog.x = "chain": an options object built from main is the base of one built from b. *)
(* Either way the rule is: as if b followed main in one file.                            *)
Pass(prog, cx, st0) ==
    LET s  == RunLines(prog.main, st0, cx, prog)
        s1 == IF prog.x = "" THEN s
              ELSE LET mid == IF cx.flags.b \/ (prog.x = "chain" /\ cx.flags.d)
                              THEN ExpandAll(s, cx) ELSE s
                   IN  RunLines(prog.b, [mid EXCEPT !.m = TRUE, !.lvl = "b"], cx, prog)
    IN  IF cx.flags.b THEN ExpandAll(s1, cx) ELSE s1

Cx(host, canonical, final, flags) ==
    [host |-> host, canonical |-> canonical, final |-> final, flags |-> flags,
     srv |-> FALSE, ruser |-> <<>>]

Out(st, cx, expanded) ==
    LET s == IF expanded THEN st ELSE ExpandAll(st, cx) IN
    <<HostNow(s, cx), PortNow(s), UserNow(s, cx), s.idf, s.env, s.ukh, s.tag, s.t, s.ex, s.tx>>

(* the first pass alone (what SSHClientConfig.load returns) *)
Eval1(prog, tgt, flags) ==
    LET cx == Cx(tgt.host, FALSE, FALSE, flags)
    IN  Out(Pass(prog, cx, St0(tgt.user)), cx, flags.b)

(* host name canonicalisation as the first pass configured it (connection.py       *)
(* _canonicalize_host): enabled, some domain, not too many dots, and the first       *)
(* domain in which the name resolves; the resolver knows <host>.c and nothing in "d" *)
TGet(st, n) == LET at == {i \in 1..Len(st.t) : st.t[i][1] = n}
               IN  IF at = {} THEN <<>> ELSE st.t[CHOOSE i \in at : TRUE][2]
Dots(h) == Cardinality({i \in 1..Len(h) : h[i] = "."})
CanonBy(st, host) ==
    LET ch   == TGet(st, "CanonicalizeHostname")
        doms == TGet(st, "CanonicalDomains")
        md   == TGet(st, "CanonicalizeMaxDots")
    IN  IF ch \notin {<<"b", "1">>, Str("always")} \/ Len(doms) < 2 THEN "no"
        ELSE IF Dots(host) > (IF md = <<"i", "0">> THEN 0 ELSE 1) THEN "no"
        ELSE IF \E i \in 2..Len(doms) : doms[i] = "c" THEN "yes"
        ELSE IF TGet(st, "CanonicalizeFallbackLocal") = <<"b", "0">> THEN "err"
        ELSE "no"
CANONERR == <<"@CANONERR@">>

(* the whole resolution, as ssh does it: a second pass if the host was *)
(* canonicalised or a "final" criterion was seen                        *)
Eval(prog, tgt, flags) ==
    LET cx1 == Cx(tgt.host, FALSE, FALSE, flags)
        s1  == Pass(prog, cx1, St0(tgt.user))
        by  == CanonBy(s1, tgt.host)
        canon == tgt.mode = "canon" \/ by = "yes"
        cx2 == Cx(IF canon THEN Canon(tgt.host) ELSE tgt.host, canon, s1.fin, flags)
    IN  IF tgt.mode # "canon" /\ by = "err" THEN [Out(s1, cx1, flags.b) EXCEPT ![1] = CANONERR]
        ELSE IF ~(canon \/ s1.fin) THEN Out(s1, cx1, flags.b)
        ELSE Out(Pass(IF flags.a /\ prog.x = "chain" THEN [prog EXCEPT !.main = <<>>] ELSE prog, cx2,
                      IF flags.a THEN [St0(tgt.user) EXCEPT !.ex = s1.ex]
                      \* ssh fixes the host name before re-reading the files
                      ELSE [s1 EXCEPT !.m = TRUE, !.lvl = "main",
                                      !.hostname = IF canon THEN cx2.host ELSE HostNow(s1, cx1)]),
                 cx2, flags.b)

Rule == [a |-> FALSE, b |-> FALSE, c |-> FALSE, d |-> FALSE, e |-> FALSE, o |-> ""]
Single == [Rule EXCEPT !.o = "single"]
(* d: an options object derived from another one expands the inherited values again *)
(* e: tokens are expanded first and ${} is then looked for in the result as well *)
AltFlags == LET all == {f \in [a : BOOLEAN, b : BOOLEAN, c : BOOLEAN, d : BOOLEAN, e : BOOLEAN, o : {""}] : f # Rule}
                bits(f) == (IF f.a THEN 1 ELSE 0) + (IF f.b THEN 2 ELSE 0) + (IF f.c THEN 4 ELSE 0)
                           + (IF f.d THEN 8 ELSE 0) + (IF f.e THEN 16 ELSE 0)
            IN  [i \in 1..31 |-> CHOOSE f \in all : bits(f) = i]

-----------------------------------------------------------------------------
(* server side *)
Letters == {"a", "b", "c", "C", "x", "y", "X", "u", "h", "o"}
HasEnvRef(u) == \E i \in 1..Len(u) : i + 1 <= Len(u) /\ u[i] = "$" /\ u[i+1] = "{"
                                      /\ \E j \in (i+2)..Len(u) : u[j] = "}"
Unsafe(u) ==
    \/ u = <<".", ".">>
    \/ (u # <<>> /\ u[1] = "~")
    \/ (Len(u) >= 2 /\ u[1] \in Letters /\ u[2] = ":")
    \/ \E i \in 1..Len(u) : u[i] \in {"/", "\\"}
    \/ HasEnvRef(u)

SrvCx(user, flags) == [host |-> ha, canonical |-> FALSE, final |-> FALSE, flags |-> flags,
                       srv |-> TRUE, ruser |-> user]
(* <<<<"reject">>>> | <<>> (option not set) | list of expanded paths (ERR inside = config error) *)
SrvEval(prog, user, flags) ==
    IF Unsafe(user) THEN <<<<"reject">>>>
    ELSE LET cx == SrvCx(user, flags)
             s  == Pass(prog, cx, St0(<<>>))
         IN  (IF flags.b THEN s ELSE ExpandAll(s, cx)).akf

-----------------------------------------------------------------------------
(* case table *)
VARIABLE kase
vars == <<kase>>

(* generated-line programs: [directive before,] generated line, one option line *)
GenOpt == IF Mode = "cli" THEN 25 ELSE 46
GenLines == UNION {GenIdx(b) : b \in GenSel}
TIdx(n, txt) == CHOOSE i \in GenIdx(5) : DirMenu[i].n = n /\ DirMenu[i].v = txt
CanonPre == <<
    <<TIdx("CanonicalizeHostname", <<"yes">>), TIdx("CanonicalDomains", <<"c">>)>>,            \* 1 ha -> ha.c
    <<TIdx("CanonicalizeHostname", <<"always">>), TIdx("CanonicalDomains", <<"d c">>)>>,       \* 2 second domain
    <<TIdx("CanonicalizeHostname", <<"yes">>), TIdx("CanonicalDomains", <<"d">>)>>,            \* 3 not found: local resolver
    <<TIdx("CanonicalizeHostname", <<"yes">>), TIdx("CanonicalDomains", <<"d">>),
      TIdx("CanonicalizeFallbackLocal", <<"no">>)>>,                                           \* 4 not found: error
    <<TIdx("CanonicalizeHostname", <<"yes">>), TIdx("CanonicalDomains", <<"c">>),
      TIdx("CanonicalizeMaxDots", <<"0">>)>>,                                                  \* 5 dots
    <<TIdx("CanonicalizeHostname", <<"no">>), TIdx("CanonicalDomains", <<"c">>)>>              \* 6 disabled
>>
GenMains == {CanonPre[k] \o <<g, GenOpt>> : k \in CanonSel \ {0}, g \in GenLines} \cup
            (IF 0 \in PreSel THEN {<<g, GenOpt>> : g \in GenLines} ELSE {}) \cup
            {<<pre, g, GenOpt>> : pre \in PreSel \ {0}, g \in GenLines}
GenProgs == [main : GenMains, a : {<<>>}, b : {<<>>}, x : {""}, ms : {<<>>}]
FreeProgs == [main : UNION {[1..n -> MainSel] : n \in 1..MaxMain},
          a    : UNION {[1..n -> IncSel]  : n \in 0..MaxInc},
          b    : UNION {[1..n -> IncSel]  : n \in 0..(IF MaxInc > 0 THEN 1 ELSE 0)},
          x    : {""}, ms : {<<>>}]
(* value-class programs: the same option twice (every ordered pair of its value classes, *)
(* also the same class twice), both occurrences applicable:                              *)
(*   1 two blocks that both match          2 in the file, then in an Included file       *)
(*   3 in an Included file, then after it   4 two configuration files given as a list     *)
(*   5 an options object chained on another 6 chained, and a "Match final" block          *)
Blk1 == IF Mode = "cli" THEN 3 ELSE 7         \* Host *   /  Match all
VProg(s, i, j) ==
    CASE s = 1 -> [main |-> <<Blk1, i, 7, j>>, a |-> <<>>,  b |-> <<>>,  x |-> "", ms |-> <<>>]
      [] s = 2 -> [main |-> <<i, 43>>,         a |-> <<j>>, b |-> <<>>,  x |-> "", ms |-> <<>>]
      [] s = 3 -> [main |-> <<43, j>>,         a |-> <<i>>, b |-> <<>>,  x |-> "", ms |-> <<>>]
      [] s = 4 -> [main |-> <<i>>,             a |-> <<>>,  b |-> <<j>>, x |-> "list", ms |-> <<>>]
      [] s = 5 -> [main |-> <<i>>,             a |-> <<>>,  b |-> <<j>>, x |-> "chain", ms |-> <<>>]
      [] s = 6 -> [main |-> <<i>>,             a |-> <<>>,  b |-> <<j, 19, i>>, x |-> "chain", ms |-> <<>>]
ValProgs == UNION {{VProg(s, i, j) : s \in ShapeSel, i \in GroupOf(g), j \in GroupOf(g)} : g \in ValSel}
(* expansion programs: [a User line,] one line of block 8 *)
ExpLines == IF Mode = "cli" THEN (BlockStart(8) + 1)..(BlockStart(8) + NExpCli)
            ELSE (BlockStart(8) + NExpCli + 5)..(BlockStart(8) + NExpCli + 8)
ExpMains == (IF 0 \in ExpSel THEN {<<e>> : e \in ExpLines} ELSE {}) \cup
            {<<BlockStart(8) + NExpCli + u, e>> : u \in ExpSel \ {0}, e \in ExpLines}
ExpProgs == [main : ExpMains, a : {<<>>}, b : {<<>>}, x : {""}, ms : {<<>>}]
(* SPELLING programs.  ms gives every line of the main file a spelling:                  *)
(*   1 K v   2 K=v   3 K = v   4 K= v   5 K =v   6 K<tab>v   7 K   v   8 k v   9 KEY v   *)
(*   10 K "v"                                                                            *)
(* A block-opening line L and the option line after it are written in every spelling, in *)
(* every CONTEXT: 1 top of the file, 2 after a block that matches, 3 after a block that  *)
(* does not match, 4 after an Include (whose file ends in a block that does not match).  *)
(* The interpreter reads the abstract program: the spelling must not matter.             *)
Spellings == 1..10
SpellL == {1, 2, 7, 8, 23, 24}       \* Host ha, Host hb, Match all, Match host ha, Match !all, Match host !ha,h*
SProg(cxt, l, sl, so) ==
    CASE cxt = 1 -> [main |-> <<l, 25>>,          ms |-> <<sl, so>>,       a |-> <<>>, b |-> <<>>, x |-> ""]
      [] cxt = 2 -> [main |-> <<3, 27, l, 25>>,   ms |-> <<1, so, sl, so>>, a |-> <<>>, b |-> <<>>, x |-> ""]
      [] cxt = 3 -> [main |-> <<23, 27, l, 25>>,  ms |-> <<sl, so, sl, so>>, a |-> <<>>, b |-> <<>>, x |-> ""]
      [] cxt = 4 -> [main |-> <<43, l, 25>>,      ms |-> <<1, sl, so>>,    a |-> <<27, 23>>, b |-> <<>>, x |-> ""]
SpellProgs == {SProg(cxt, l, sl, so) : cxt \in SpellSel, l \in SpellL, sl \in Spellings, so \in Spellings}
Progs == IF SpellSel # {} THEN SpellProgs
         ELSE IF ExpSel # {} THEN ExpProgs
         ELSE IF ValSel # {} THEN ValProgs ELSE IF GenSel = {} THEN FreeProgs ELSE GenProgs
UsesInc(p, f) == \E i \in 1..Len(p.main) : DirMenu[p.main[i]].k = "inc" /\ DirMenu[p.main[i]].f = f
(* include files only vary when they are read *)
WellFormed(p) ==
    /\ (p.a # <<>> => (UsesInc(p, "A") \/ UsesInc(p, "G")))
    /\ (p.b # <<>> => (UsesInc(p, "G") \/ p.x # ""))
RECURSIVE SeqHash(_)
SeqHash(s) == IF s = <<>> THEN 3 ELSE (SeqHash(Tail(s)) * 53 + Head(s)) % 100003
Keep(p) == (SeqHash(p.main) + 7 * SeqHash(p.a) + 11 * SeqHash(p.b) + 5 * SeqHash(p.ms)) % SampleMod = SampleRem

(* canonicalisation is only modelled where the code and ssh use the same names *)
UsesCanon(p) == \E i \in 1..Len(p.main) : DirMenu[p.main[i]].n = "CanonicalDomains"
CanonOK(p) ==
    \A i \in 1..Len(p.main) :
        LET d == DirMenu[p.main[i]] IN
        /\ d.n # "Hostname"
        /\ \A j \in 1..Len(d.cr) : d.cr[j].c # "originalhost"
        /\ p.main[i] # 33

(* ------------------------------------------------------------------------------------ *)
(* THE LEXICAL LAYER of a configuration line (config.py SSHConfig.parse: line.strip(),  *)
(* shlex.split in POSIX mode without comments, then the '=' spellings).  A line is the   *)
(* keyword K followed by an argument text over a small alphabet; how it is cut into      *)
(* words does not depend on the option, except that RemoteCommand / ProxyCommand take    *)
(* the rest of the line verbatim.                                                        *)
LexAlpha == {" ", "\t", "=", "x", "#", "\"", "'", "\\"}
LexKinds == {"one", "list", "rest", "host"}   \* HostKeyAlias, SendEnv, RemoteCommand, Host
WS == {" ", "\t"}
Quotes == {"\"", "'"}
RECURSIVE StripRW(_)
StripRW(s) == IF s # <<>> /\ s[Len(s)] \in WS THEN StripRW(SubSeq(s, 1, Len(s) - 1)) ELSE s
RECURSIVE StripLW(_)
StripLW(s) == IF s # <<>> /\ Head(s) \in WS THEN StripLW(Tail(s)) ELSE s

(* shlex in POSIX mode: st " " between words, "a" in a word, a quote character inside *)
(* quotes, "e" after a backslash (esc = the state to return to); q: the word has had  *)
(* a quoted part (so an empty word "" counts)                                           *)
Emit1(z) == IF z.tok # <<>> \/ z.q THEN Append(z.out, z.tok) ELSE z.out
RECURSIVE Shlex(_, _, _)
Shlex(s, i, z) ==
    IF i > Len(s)
    THEN IF z.st \in Quotes \/ z.st = "e" THEN [err |-> TRUE, out |-> <<>>]   \* no closing quotation / nothing escaped
         ELSE [err |-> FALSE, out |-> Emit1(z)]
    ELSE LET ch == s[i] IN
      IF z.st = " " THEN
           IF ch \in WS THEN Shlex(s, i + 1, z)
           ELSE IF ch = "#" /\ HashCutsWord THEN [err |-> FALSE, out |-> z.out]
           ELSE IF ch = "\\" THEN Shlex(s, i + 1, [z EXCEPT !.st = "e", !.esc = "a"])
           ELSE IF ch \in Quotes THEN Shlex(s, i + 1, [z EXCEPT !.st = ch, !.q = TRUE])
           ELSE Shlex(s, i + 1, [z EXCEPT !.st = "a", !.tok = <<ch>>])
      ELSE IF z.st = "a" THEN
           IF ch \in WS THEN Shlex(s, i + 1, [z EXCEPT !.st = " ", !.out = Emit1(z), !.tok = <<>>, !.q = FALSE])
           ELSE IF ch = "#" /\ HashCutsWord THEN [err |-> FALSE, out |-> Emit1(z)]
           ELSE IF ch \in Quotes THEN Shlex(s, i + 1, [z EXCEPT !.st = ch, !.q = TRUE])
           ELSE IF ch = "\\" THEN Shlex(s, i + 1, [z EXCEPT !.st = "e", !.esc = "a"])
           ELSE Shlex(s, i + 1, [z EXCEPT !.tok = Append(@, ch)])
      ELSE IF z.st \in Quotes THEN
           IF ch = z.st THEN Shlex(s, i + 1, [z EXCEPT !.st = "a"])
           ELSE IF ch = "\\" /\ z.st = "\"" THEN Shlex(s, i + 1, [z EXCEPT !.st = "e", !.esc = "\""])
           ELSE Shlex(s, i + 1, [z EXCEPT !.tok = Append(@, ch)])
      ELSE \* after a backslash; inside "..." only \\ and \" are escapes
           LET keep == z.esc = "\"" /\ ch # "\\" /\ ch # "\""
           IN  Shlex(s, i + 1, [z EXCEPT !.st = z.esc,
                                         !.tok = @ \o (IF keep THEN <<"\\">> ELSE <<>>) \o <<ch>>])
Words(line) == Shlex(line, 1, [st |-> " ", esc |-> "a", tok |-> <<>>, q |-> FALSE, out |-> <<>>])

(* the '=' spellings: the first word may be Key=Value / Key= ; later words lose a leading *)
(* '='; for Host / Match every word is cut at '='                                          *)
EqAt(w) == IF \E i \in 1..Len(w) : w[i] = "="
           THEN CHOOSE i \in 1..Len(w) : w[i] = "=" /\ \A j \in 1..(i - 1) : w[j] # "=" ELSE 0
RECURSIVE EqWords(_, _, _, _, _)
EqWords(ws, i, args, allow, cond) ==
    IF i > Len(ws) THEN args
    ELSE LET w == ws[i]
             a2 == IF w # <<>> /\ w[1] = "=" THEN (IF Len(w) > 1 THEN Append(args, Tail(w)) ELSE args)
                   ELSE IF ~allow THEN args \o SubSeq(ws, i, Len(ws))
                   ELSE IF w # <<>> /\ w[Len(w)] = "=" THEN Append(args, SubSeq(w, 1, Len(w) - 1))
                   ELSE IF EqAt(w) > 0 THEN Append(Append(args, SubSeq(w, 1, EqAt(w) - 1)),
                                                    SubSeq(w, EqAt(w) + 1, Len(w)))
                   ELSE Append(args, w)
             stop == ~(w # <<>> /\ w[1] = "=") /\ ~allow
         IN  IF stop THEN a2
             ELSE EqWords(ws, i + 1, a2, IF i = 1 THEN (cond /\ a2 # <<>> /\ Head(a2) = <<"K">>) ELSE allow, cond)
(* status "err" (ConfigParseError) / "ign" (another keyword: line ignored) / "ok" + the values *)
LexLine(kind, s) ==
    LET line == <<"K">> \o StripRW(s)
        w    == Words(line)
        all  == EqWords(w.out, 1, <<>>, TRUE, kind = "host")
        args == IF kind = "rest" THEN <<StripLW(StripRW(Tail(line)))>> ELSE Tail(all)
    IN  IF w.err THEN <<"err", <<>>>>
        ELSE IF all = <<>> \/ Head(all) # <<"K">> THEN <<"ign", <<>>>>
        ELSE IF args = <<>> THEN <<"err", <<>>>>                          \* missing value
        ELSE IF kind = "one" /\ Len(args) > 1 THEN <<"err", <<>>>>        \* extra data
        ELSE <<"ok", args>>

(* reference for the plain fragment: without quotes, backslashes and '=', the words are *)
(* the maximal runs of non-blank characters, '#' included                               *)
RECURSIVE SplitWS(_, _)
SplitWS(s, cur) ==
    IF s = <<>> THEN (IF cur = <<>> THEN <<>> ELSE <<cur>>)
    ELSE IF Head(s) \in WS THEN (IF cur = <<>> THEN <<>> ELSE <<cur>>) \o SplitWS(Tail(s), <<>>)
    ELSE SplitWS(Tail(s), Append(cur, Head(s)))
LexPlain(s) == \A i \in 1..Len(s) : s[i] \notin {"\"", "'", "\\", "="}
HashIsAWordCharacter ==
    (Mode = "lex" /\ LexPlain(kase.s)) => Words(<<"K">> \o kase.s).out = SplitWS(<<"K">> \o kase.s, <<>>)
QuotesMustBalance ==
    (Mode = "lex" /\ \A i \in 1..Len(kase.s) : kase.s[i] \notin {"'", "\\"}) =>
        (Cardinality({i \in 1..Len(kase.s) : kase.s[i] = "\""}) % 2 = 1) = Words(<<"K">> \o kase.s).err
LexCode(ch) == CASE ch = " " -> 1 [] ch = "\t" -> 2 [] ch = "=" -> 3 [] ch = "x" -> 4 [] ch = "#" -> 5
                 [] ch = "\"" -> 6 [] ch = "'" -> 7 [] OTHER -> 8
RECURSIVE LexHash(_)
LexHash(s) == IF s = <<>> THEN 5 ELSE (LexHash(Tail(s)) * 11 + LexCode(Head(s))) % 100003

Init ==
    \/ /\ Mode = "lex"
       /\ kase \in [kind : LexKinds, s : Strs(LexAlpha, 0, MaxLex)]
       /\ (Len(kase.s) < MaxLex \/ (LexHash(kase.s) + Len(kase.kind)) % SampleMod = SampleRem)
    \/ /\ Mode = "cli"
       /\ kase \in [p : Progs, t : TgtSel]
       /\ WellFormed(kase.p) /\ Keep(kase.p)
       /\ ((TgtMenu[kase.t].mode = "canon" \/ UsesCanon(kase.p)) => CanonOK(kase.p))
    \/ /\ Mode = "srv"
       /\ kase \in [p : Progs, t : IF GenSel # {} \/ ValSel # {} \/ ExpSel # {} THEN TgtSel
                                   ELSE 1..Len(SrvUsers)]
       /\ WellFormed(kase.p) /\ Keep(kase.p)
Next == UNCHANGED kase
Spec == Init /\ [][Next]_vars

-----------------------------------------------------------------------------
(* properties of the rule *)
NoInc(p) == \A i \in 1..Len(p.main) : DirMenu[p.main[i]].k # "inc"

(* declarative reading, for programs without Include, first pass: line i *)
(* "holds" iff the nearest Host/Match line before it is satisfied in the   *)
(* state reached there                                                      *)
RECURSIVE StateAt(_, _, _)
StateAt(p, i, cx) == IF i = 0 THEN St0(TgtMenu[kase.t].user)
                     ELSE RunLines(SubSeq(p.main, 1, i), St0(TgtMenu[kase.t].user), cx, p)
CondLine(p, i) == LET S == {j \in 1..(i-1) : DirMenu[p.main[j]].k \in {"host", "match"}}
                  IN  IF S = {} THEN 0 ELSE CHOOSE j \in S : \A k \in S : k <= j
Holds(p, i, cx) ==
    LET j == CondLine(p, i) IN
    IF j = 0 THEN TRUE
    ELSE LET d == DirMenu[p.main[j]]
             st == StateAt(p, j - 1, cx)
         IN  IF d.k = "host" THEN NameListMatch(d.pl, cx.host)
             ELSE \A k \in 1..Len(d.cr) : CritVal(d.cr[k], st, cx) # d.cr[k].neg
Assigning(p, n, cx) == {i \in 1..Len(p.main) : DirMenu[p.main[i]].k \in {"opt", "topt"} /\ DirMenu[p.main[i]].n = n
                                                /\ Holds(p, i, cx)}
MinOf(S) == CHOOSE x \in S : \A y \in S : x <= y
RECURSIVE SortedSeq(_)
SortedSeq(S) == IF S = {} THEN <<>> ELSE <<MinOf(S)>> \o SortedSeq(S \ {MinOf(S)})

FirstWins ==
    (Mode = "cli" /\ NoInc(kase.p)) =>
        LET cx == Cx(TgtMenu[kase.t].host, FALSE, FALSE, Rule)
            st == RunLines(kase.p.main, St0(TgtMenu[kase.t].user), cx, kase.p)
            val(n, cur, dflt) == IF dflt # <<>> THEN dflt
                                 ELSE IF Assigning(kase.p, n, cx) = {} THEN <<>>
                                 ELSE DirMenu[kase.p.main[MinOf(Assigning(kase.p, n, cx))]].v[1]
        IN  /\ st.port = val("Port", st.port, <<>>)
            /\ st.user = val("User", st.user, TgtMenu[kase.t].user)
            /\ st.tag  = val("Tag", st.tag, <<>>)
            /\ (Assigning(kase.p, "Hostname", cx) = {}) = (st.hostname = <<>>)
            \* typed options: the value is the one denoted by the first applicable line,
            \* whatever it denotes ("none", the default, an empty string ...)
            /\ \A k \in 1..Len(st.t) :
                  LET S == Assigning(kase.p, st.t[k][1], cx)
                      d == DirMenu[kase.p.main[MinOf(S)]]
                  IN  S # {} /\ (d.ty = "set" => st.t[k][2] = d.den)
            /\ \A i \in 1..Len(kase.p.main) :
                  LET d == DirMenu[kase.p.main[i]] IN
                  (d.k = "topt" /\ d.ty \in {"set", "app"} /\ Holds(kase.p, i, cx))
                     => \E k \in 1..Len(st.t) : st.t[k][1] = d.n

Accumulates ==
    (Mode = "cli" /\ NoInc(kase.p)) =>
        LET cx == Cx(TgtMenu[kase.t].host, FALSE, FALSE, Rule)
            st == RunLines(kase.p.main, St0(TgtMenu[kase.t].user), cx, kase.p)
            D(i) == DirMenu[kase.p.main[i]]
            lines(n) == SortedSeq({i \in Assigning(kase.p, n, cx) :
                                     IF D(i).k = "topt" THEN D(i).den # NONE
                                     ELSE ~IsNoneText(D(i).v[1])})
        IN  /\ st.idf = [i \in 1..Len(lines("IdentityFile")) |-> D(lines("IdentityFile")[i]).v[1]]
            /\ st.env = Flat([i \in 1..Len(lines("SendEnv")) |-> D(lines("SendEnv")[i]).v])
            /\ \A k \in 1..Len(st.t) :
                  (\E i \in 1..Len(kase.p.main) : D(i).k = "topt" /\ D(i).n = st.t[k][1] /\ D(i).ty = "app")
                  => st.t[k][2] = <<"l">> \o [i \in 1..Len(lines(st.t[k][1])) |-> D(lines(st.t[k][1])[i]).den[2]]

(* Include A == A's lines in place, when A has no Host/Match line of its own *)
BlockFree(f) == \A i \in 1..Len(f) : DirMenu[f[i]].k = "opt"
RECURSIVE Splice(_, _)
Splice(main, body) ==
    IF main = <<>> THEN <<>>
    ELSE IF DirMenu[Head(main)].k = "inc" /\ DirMenu[Head(main)].f = "A"
         THEN body \o Splice(Tail(main), body)
    ELSE <<Head(main)>> \o Splice(Tail(main), body)
IncludeInPlace ==
    (Mode = "cli" /\ BlockFree(kase.p.a) /\ ~UsesInc(kase.p, "G")) =>
        Eval(kase.p, TgtMenu[kase.t], Rule) =
        Eval([kase.p EXCEPT !.main = Splice(kase.p.main, kase.p.a)], TgtMenu[kase.t], Rule)

(* whether a final pass is wanted does not depend on where "final" stands in its line, *)
(* nor on the truth of the criteria around it                                           *)
SecondPassOrderFree ==
    (Mode = "cli" /\ NoInc(kase.p) /\ kase.p.x = "") =>
        LET cx == Cx(TgtMenu[kase.t].host, FALSE, FALSE, Rule)
            st == RunLines(kase.p.main, St0(TgtMenu[kase.t].user), cx, kase.p)
        IN  st.fin = \E i \in 1..Len(kase.p.main) : HasFinal(DirMenu[kase.p.main[i]].cr)

(* a "Match exec" command is run exactly when all criteria written before it hold *)
RECURSIVE ExecCount(_, _, _)
ExecCount(p, i, cx) ==
    IF i = 0 THEN 0
    ELSE LET crs == DirMenu[p.main[i]].cr
             st  == StateAt(p, i - 1, cx)
         IN  ExecCount(p, i - 1, cx) +
             Cardinality({k \in 1..Len(crs) :
                            /\ crs[k].c \in {"exect", "execf"}
                            /\ \A j \in 1..(k - 1) : CritVal(crs[j], st, cx) # crs[j].neg})
ExecGuarded ==
    (Mode = "cli" /\ NoInc(kase.p) /\ kase.p.x = "") =>
        LET cx == Cx(TgtMenu[kase.t].host, FALSE, FALSE, Rule)
            st == RunLines(kase.p.main, St0(TgtMenu[kase.t].user), cx, kase.p)
        IN  Len(st.ex) = ExecCount(kase.p, Len(kase.p.main), cx)

(* expansion is one pass: the resolution equals the one obtained with the single-pass *)
(* reference, whatever the token and environment values contain                       *)
NoRescan ==
    IF Mode = "cli"
    THEN Eval1(kase.p, TgtMenu[kase.t], Rule) = Eval1(kase.p, TgtMenu[kase.t], Single)
    ELSE SrvEval(kase.p, SrvUsers[kase.t], Rule) = SrvEval(kase.p, SrvUsers[kase.t], Single)

(* how a line is spelt does not change what the file means *)
SpellingInvariant ==
    Mode = "cli" =>
        Eval(kase.p, TgtMenu[kase.t], Rule) = Eval([kase.p EXCEPT !.ms = <<>>], TgtMenu[kase.t], Rule)

(* the Host/Match lines of an included file do not reach the lines after the Include *)
IncludeRestores ==
    Mode = "cli" =>
        LET cx == Cx(TgtMenu[kase.t].host, FALSE, FALSE, Rule) IN
        \A i \in 1..Len(kase.p.main) :
            DirMenu[kase.p.main[i]].k = "inc" =>
                StateAt(kase.p, i, cx).m = StateAt(kase.p, i - 1, cx).m

(* server: an unsafe name is never substituted; a safe one is substituted literally once *)
RECURSIVE Subst(_, _)
Subst(s, u) == IF s = <<>> THEN <<>>
               ELSE IF Len(s) >= 2 /\ s[1] = "%" /\ s[2] = "u" THEN u \o Subst(SubSeq(s, 3, Len(s)), u)
               ELSE IF Len(s) >= 2 /\ s[1] = "%" /\ s[2] = "%" THEN <<"%">> \o Subst(SubSeq(s, 3, Len(s)), u)
               ELSE <<Head(s)>> \o Subst(Tail(s), u)
RawAkf(p, u) == Pass(p, SrvCx(u, Rule), St0(<<>>)).akf
NoUnsafeExpansion ==
    Mode = "srv" =>
        LET u == SrvUsers[kase.t]
            r == SrvEval(kase.p, u, Rule)
        IN  /\ Unsafe(u) => r = <<<<"reject">>>>
            /\ ~Unsafe(u) =>
                   \A i \in 1..Len(r) : r[i] = ExpandOne(RawAkf(kase.p, u)[i],
                                                          ("%" :> <<"%">>) @@ ("u" :> u))
            \* a safe name adds exactly one path component and no expansion syntax
            /\ ~Unsafe(u) => /\ \A i \in 1..Len(u) : u[i] \notin {"/", "\\"}
                             /\ u # <<".", ".">>

(* witnesses *)
NeverSecondPass == ~(Mode = "cli" /\ Eval(kase.p, TgtMenu[kase.t], Rule) # Eval1(kase.p, TgtMenu[kase.t], Rule))
NeverAltDiffers == ~(Mode = "cli" /\ \E i \in 1..Len(AltFlags) :
                         Eval(kase.p, TgtMenu[kase.t], AltFlags[i]) # Eval(kase.p, TgtMenu[kase.t], Rule))

-----------------------------------------------------------------------------
(* emission *)
B2N(x) == IF x THEN 1 ELSE 0
HasFinalCrit(p) == \E part \in {p.main, p.a, p.b} : \E i \in 1..Len(part) : HasFinal(DirMenu[part[i]].cr)
SensA(p, t) == t.mode = "canon" \/ HasFinalCrit(p) \/ UsesCanon(p)
SensB(p, t) == UsesInc(p, "A") \/ UsesInc(p, "G") \/ SensA(p, t) \/ p.x = "list"
SensC(p)    == UsesInc(p, "G")
SensD(p)    == p.x = "chain"
HasDollar(s) == \E i \in 1..Len(s) : s[i] = "$"
SensE(p, t) == HasDollar(t.user) \/ HasDollar(t.host) \/
               \E i \in 1..Len(p.main) : DirMenu[p.main[i]].n = "User" /\ HasDollar(DirMenu[p.main[i]].v[1])
Alts(p, t, first) ==
    SelectSeq(AltFlags, LAMBDA f : /\ (f.a => (~first /\ SensA(p, t)))
                                   /\ (f.b => SensB(p, t)) /\ (f.c => SensC(p))
                                   /\ (f.d => SensD(p)) /\ (f.e => SensE(p, t)))
FlagBits(f) == B2N(f.a) + 2 * B2N(f.b) + 4 * B2N(f.c) + 8 * B2N(f.d) + 16 * B2N(f.e)
EmitCli ==
    LET t == TgtMenu[kase.t]
        r == Eval(kase.p, t, Rule)
        af == Alts(kase.p, t, FALSE)
        af1 == Alts(kase.p, t, TRUE)
        alts == SelectSeq([i \in 1..Len(af) |-> <<FlagBits(af[i]), Eval(kase.p, t, af[i])>>],
                          LAMBDA x : x[2] # r)
        alts1 == SelectSeq([i \in 1..Len(af1) |-> <<FlagBits(af1[i]), Eval1(kase.p, t, af1[i])>>],
                           LAMBDA x : x[2] # Eval1(kase.p, t, Rule))
    IN  PrintT(<<"cli", kase.p.main, kase.p.a, kase.p.b, kase.t, Eval1(kase.p, t, Rule), r, alts1, alts,
                 kase.p.x, B2N(ExpSel # {}), kase.p.ms>>)
EmitSrv ==
    LET u == SrvUsers[kase.t]
        r == SrvEval(kase.p, u, Rule)
        af == SelectSeq(AltFlags, LAMBDA f : ~f.a /\ ~f.d /\ ~f.e
                                              /\ (f.b => UsesInc(kase.p, "A") \/ UsesInc(kase.p, "G")
                                                           \/ kase.p.x = "list")
                                              /\ (f.c => UsesInc(kase.p, "G")))
        alts == SelectSeq([i \in 1..Len(af) |-> <<FlagBits(af[i]), SrvEval(kase.p, u, af[i])>>],
                          LAMBDA x : x[2] # r)
    IN  PrintT(<<"srv", kase.p.main, kase.p.a, kase.p.b, kase.t, B2N(Unsafe(u)), r, alts,
                 RawAkf(kase.p, u), kase.p.x,
                 Pass(kase.p, SrvCx(u, Rule), St0(<<>>)).t>>)
EmitLex == LET r == LexLine(kase.kind, kase.s)
           IN  PrintT(<<"lex", kase.kind, kase.s, r[1], r[2]>>)
EmitCase == Emit => IF Mode = "cli" THEN EmitCli ELSE IF Mode = "lex" THEN EmitLex ELSE EmitSrv

MenuDump == <<"menu",
              [i \in 1..NDir |-> DirText(DirMenu[i])],
              [i \in 1..Len(TgtMenu) |-> <<TgtMenu[i].host, TgtMenu[i].user, TgtMenu[i].mode>>],
              SrvUsers,
              [i \in 1..NDir |-> <<DirMenu[i].k, DirMenu[i].n,
                                   IF DirMenu[i].k = "match"
                                   THEN [j \in 1..Len(DirMenu[i].cr) |-> DirMenu[i].cr[j].c]
                                   ELSE <<>>>>],
              \* keyword and canonical value text of every directive (for respelling)
              [i \in 1..NDir |->
                 LET d == DirMenu[i] IN
                 IF d.k \in {"host", "match"} THEN <<Head(DirText(d)), Tail(Tail(DirText(d)))>>
                 ELSE IF d.k = "opt" THEN <<d.n, Join(d.v, <<" ">>)>>
                 ELSE <<"", <<>>>>]>>
ASSUME Emit => PrintT(MenuDump)
=============================================================================
