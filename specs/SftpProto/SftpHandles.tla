----------------------------- MODULE SftpHandles -----------------------------
(***************************************************************************)
(* Handle life cycle on the server side of an SFTP session                  *)
(* (SFTPServerHandler: _get_next_handle, _process_open / _process_opendir,  *)
(* _process_close, every handle-taking _process_* method, _cleanup;         *)
(* sftp.py).  The client is the adversary: it opens files and directories,  *)
(* closes them (the application's close() hook may succeed or raise) and    *)
(* sends handle-taking requests naming live handles of the right or wrong   *)
(* kind, closed handles, handles that were never issued, an empty and a     *)
(* very long handle string.                                                 *)
(*                                                                         *)
(* Rule: a handle is dead after the FIRST close, whatever the hook did;     *)
(* every request on a dead / unknown / wrong-kind handle is answered by the *)
(* version's invalid-handle status; the application's close() hook runs at  *)
(* most once per open (the end of the session closes what is still open).   *)
(***************************************************************************)
EXTENDS Integers, FiniteSets, TLC

CONSTANTS
    Slots,            \* handles the session may issue, in order (1 .. k)
    MaxSteps,         \* requests after which the session ends
    FileReqs,         \* requests that take a file handle
    Hooks,            \* outcomes of the application's close(): "ok", "oserr", "sftperr"
    DeleteAfterHook   \* FALSE: the table entry goes before the hook runs (the code);
                      \* TRUE: only after the hook returned (sensitivity variant)

Specials == {-1, -2, -3}      \* handle strings that were never issued: a well-formed one,
                              \* the empty string, a very long string (integers, like Slots)

VARIABLES
    v,          \* protocol version
    kind,       \* Slots -> "none" (not issued) | "file" | "dir"
    live,       \* Slots -> BOOLEAN: the handle is in the server's table
    closedOnce, \* history: a CLOSE naming this handle has been processed
    closeCalls, \* history: how often the application's close() ran for this open
    dirEof,     \* the directory listing behind the handle is exhausted
    n,          \* requests so far
    ended,      \* the session is over
    reply,      \* what the last request was answered with
    bad,        \* history: a request on a handle that had been closed was not refused
    lbl

vars == <<v, kind, live, closedOnce, closeCalls, dirEof, n, ended, reply, bad, lbl>>
view == <<v, kind, live, closedOnce, closeCalls, dirEof, n, ended, reply, bad>>

Init ==
    /\ v \in 3 .. 6
    /\ kind = [s \in Slots |-> "none"] /\ live = [s \in Slots |-> FALSE]
    /\ closedOnce = [s \in Slots |-> FALSE] /\ closeCalls = [s \in Slots |-> 0]
    /\ dirEof = [s \in Slots |-> FALSE]
    /\ n = 0 /\ ended = FALSE /\ reply = "none" /\ bad = FALSE
    /\ lbl = <<"init">>

Issued == {s \in Slots : kind[s] # "none"}
Free == Slots \ Issued
NextSlot == CHOOSE s \in Free : \A u \in Free : s <= u      \* handles are never reused
Targets == Issued \cup Specials

Step == /\ ~ended /\ n < MaxSteps /\ n' = n + 1 /\ UNCHANGED <<v, ended>>

Open(k, ok) ==
    /\ Step /\ Free # {}
    /\ lbl' = <<"open", k, ok>>
    /\ IF ok
       THEN /\ kind' = [kind EXCEPT ![NextSlot] = k]
            /\ live' = [live EXCEPT ![NextSlot] = TRUE]
            /\ reply' = "handle"
       ELSE /\ UNCHANGED <<kind, live>> /\ reply' = "status_err"
    /\ UNCHANGED <<closedOnce, closeCalls, dirEof, bad>>

Close(t, hook) ==
    /\ Step /\ t \in Targets
    /\ lbl' = <<"close", t, hook>>
    /\ IF t \in Slots /\ live[t]
       THEN IF kind[t] = "file"
            THEN /\ closeCalls' = [closeCalls EXCEPT ![t] = @ + 1]
                 /\ live' = [live EXCEPT ![t] = DeleteAfterHook /\ hook # "ok"]
                 /\ reply' = IF hook = "ok" THEN "status_ok" ELSE "status_err"
            ELSE /\ live' = [live EXCEPT ![t] = FALSE] /\ reply' = "status_ok"
                 /\ UNCHANGED closeCalls
       ELSE /\ reply' = "invalid" /\ UNCHANGED <<live, closeCalls>>
    /\ closedOnce' = IF t \in Slots THEN [closedOnce EXCEPT ![t] = TRUE] ELSE closedOnce
    /\ bad' = (bad \/ (t \in Slots /\ closedOnce[t] /\ reply' # "invalid"))
    /\ UNCHANGED <<kind, dirEof>>

Use(r, t) ==
    /\ Step /\ t \in Targets
    /\ lbl' = <<"use", r, t>>
    /\ reply' = IF t \in Slots /\ live[t]
                THEN IF r = "readdir"
                     THEN (IF kind[t] = "dir"
                           THEN (IF dirEof[t] THEN "eof" ELSE "name") ELSE "invalid")
                     ELSE (IF kind[t] = "file" THEN "served" ELSE "invalid")
                ELSE "invalid"
    /\ dirEof' = IF t \in Slots /\ live[t] /\ r = "readdir" /\ kind[t] = "dir"
                 THEN [dirEof EXCEPT ![t] = TRUE] ELSE dirEof
    /\ bad' = (bad \/ (t \in Slots /\ closedOnce[t] /\ reply' # "invalid"))
    /\ UNCHANGED <<kind, live, closedOnce, closeCalls>>

\* the session ends: _cleanup closes every file that is still in the table
End ==
    /\ ~ended /\ ended' = TRUE
    /\ lbl' = <<"end">>
    /\ closeCalls' = [s \in Slots |-> IF live[s] /\ kind[s] = "file"
                                     THEN closeCalls[s] + 1 ELSE closeCalls[s]]
    /\ live' = [s \in Slots |-> FALSE]
    /\ reply' = "none"
    /\ UNCHANGED <<v, kind, closedOnce, dirEof, n, bad>>

Next ==
    \/ \E k \in {"file", "dir"}, ok \in BOOLEAN : (k = "file" \/ ok) /\ Open(k, ok)
    \/ \E t \in Targets, h \in Hooks : Close(t, h)
    \/ \E r \in FileReqs \cup {"readdir"}, t \in Targets : Use(r, t)
    \/ End

Spec == Init /\ [][Next]_vars

-----------------------------------------------------------------------------
\* the status that refuses a handle: FX_INVALID_HANDLE does not exist in v3,
\* where it is sent as FX_FAILURE with the reason "Invalid file handle"
InvalidCode == IF v = 3 THEN 4 ELSE 9

\* a handle is dead after the first CLOSE, whatever the hook did
DeadIsInvalid == ~bad
\* the application's close() runs at most once per open
HooksOnce == \A s \in Slots : closeCalls[s] <= 1
\* ... and exactly once by the end of the session
ClosedAtEnd == ended => \A s \in Slots : kind[s] = "file" => closeCalls[s] = 1
\* a listing that ended stays ended
EofStays == [][\A s \in Slots : dirEof[s] => dirEof'[s]]_vars
\* only issued, never closed handles are in the table
TableSound == \A s \in Slots : live[s] => (kind[s] # "none" /\ (~DeleteAfterHook => ~closedOnce[s]))

\* vacuity witness: a closed handle is named again and refused
NeverRefusedDead == ~(reply = "invalid" /\ \E s \in Slots : closedOnce[s] /\
                        ((lbl[1] = "use" /\ lbl[3] = s) \/ (lbl[1] = "close" /\ lbl[2] = s)))
=============================================================================
