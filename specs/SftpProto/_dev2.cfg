CONSTANTS
  Emit = FALSE
SPECIFICATION Spec
INVARIANT OneReplyOwed
INVARIANT DamageIsError
INVARIANT CodeInVersion
INVARIANT V6Exact
INVARIANT Table
CHECK_DEADLOCK FALSE
