----------------------------- MODULE SftpValues -----------------------------
(***************************************************************************)
(* The VALUE a reply carries, as a dimension of the client's request /      *)
(* reply matching (SFTPClientHandler._make_request and the _process_*      *)
(* decoders, the SFTPClient / SFTPClientFile methods on top; sftp.py).      *)
(* For every kind of request of the public API and every legal reply -- the *)
(* success type with boundary values (a handle of 0, 1 and 256 bytes; data  *)
(* of 0, 1 and many bytes; a name list with 0, 1, 2 entries, with and       *)
(* without the end-of-list flag; attributes with no, one and many fields;   *)
(* the extended reply), FX_OK where that is the answer, and every status    *)
(* code -- the table says what the caller must get, and for requests that   *)
(* return a handle what the client does with it afterwards: it names the    *)
(* handle in the next request and closes it exactly once.                   *)
(* TLC checks the table and prints it; the harness serves each row from a   *)
(* scripted raw SFTP server to the real client API.                         *)
(***************************************************************************)
EXTENDS Integers, FiniteSets, TLC

CONSTANTS
    Emit,
    FalsyIsMissing,   \* FALSE: only the ABSENCE of a value (FX_OK) is "no value" (the
                      \* code); TRUE: a value that happens to be empty counts as absent
    CloseSkipsEmpty   \* FALSE: a handle is closed whatever its bytes; TRUE: a zero-length
                      \* handle is never closed (the pinned tree, finding EmptyHandle)

Versions == 3 .. 6
Kinds == {"open", "opendir", "read", "read0", "readdir", "realpath", "readlink", "stat",
          "lstat", "statvfs", "remove", "mkdir", "setstat"}
Values(k) ==
    CASE k \in {"open", "opendir"} -> {"h0", "h1", "h256"}
      [] k = "read" -> {"d1", "dN"}
      [] k = "read0" -> {"d0"}                 \* a read of zero bytes
      [] k = "readdir" -> {"n0", "n0end", "n1", "n2", "n2end"}
      [] k \in {"realpath", "readlink"} -> {"n1"}
      [] k \in {"stat", "lstat"} -> {"a0", "a1", "aN"}
      [] k = "statvfs" -> {"e88"}
      [] OTHER -> {"ok"}                       \* FX_OK is the answer
ReturnsValue(k) == k \notin {"remove", "mkdir", "setstat"}
ReturnsHandle(k) == k \in {"open", "opendir"}
\* the decoded value is empty (falsy in the implementation language)
Falsy(c) == c = "h0"

Codes == (1 .. 31) \cup {99}        \* 99: a code no version defines

Cases ==
    UNION {{[k |-> k, v |-> v, r |-> c, code |-> 0] : v \in Versions, c \in Values(k)} :
              k \in Kinds}
    \cup {[k |-> k, v |-> v, r |-> "status", code |-> cd] :
              k \in Kinds, v \in Versions, cd \in {0} \cup Codes}

VARIABLE case
Init == case \in {c \in Cases : ~(c.r = "status" /\ c.code = 0 /\ ~ReturnsValue(c.k))
                               /\ (c.r \in {"n0end", "n2end"} => c.v = 6)}
Next == UNCHANGED case
Spec == Init /\ [][Next]_case

\* what the caller of the API gets
Outcome ==
    IF case.r # "status"
    THEN IF FalsyIsMissing /\ Falsy(case.r) THEN <<"badmsg">> ELSE <<"value", case.r>>
    ELSE IF case.code = 0 THEN <<"badmsg">>                      \* FX_OK, but a value is owed
    ELSE IF case.code = 1 /\ case.k \in {"read", "read0"} THEN <<"value", "empty">>  \* EOF
    ELSE IF case.code = 1 /\ case.k = "readdir" THEN <<"value", "n0">>     \* the listing ends
    ELSE <<"exc", case.code>>

Delivered == Outcome[1] = "value" /\ case.r # "status"
\* requests the client makes with a handle it was given: how often it names it
\* again before closing, and how often it closes it
Closes ==
    IF ~ReturnsHandle(case.k) \/ case.r = "status" THEN 0
    ELSE IF ~Delivered THEN 0                   \* the caller never saw the handle
    ELSE IF CloseSkipsEmpty /\ case.r = "h0" THEN 0
    ELSE 1

Expected == <<"VALUE", case.k, case.v, case.r, case.code, Outcome, Closes>>
Table == Emit => PrintT(Expected)

-----------------------------------------------------------------------------
\* a legal, well-formed reply of the success type reaches the caller as it is
ValueDelivered == case.r # "status" => Outcome = <<"value", case.r>>
\* an error status reaches the caller as the error of that code, except where the
\* API defines end-of-file as an ordinary result
StatusMapped ==
    (case.r = "status" /\ case.code # 0) =>
        \/ Outcome = <<"exc", case.code>>
        \/ (case.code = 1 /\ case.k \in {"read", "read0", "readdir"})
\* a handle the server issued is closed exactly once
CloseOnce == (ReturnsHandle(case.k) /\ case.r # "status") => Closes = 1
=============================================================================
