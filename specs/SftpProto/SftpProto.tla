------------------------------ MODULE SftpProto ------------------------------
(***************************************************************************)
(* Request / reply matching of asyncssh's SFTP client                      *)
(* (SFTPClientHandler._send_request, _make_request, _process_packet,       *)
(* _cleanup; sftp.py 2634-2696).                                           *)
(*                                                                         *)
(* K callers each have one request outstanding (ids 0..K-1, allocated in   *)
(* call order).  The server is the adversary: it sends replies <<id, type>>*)
(* in any order, for known, unknown and already answered ids, and of any   *)
(* type.  A reply of a value type carries a payload that names the request *)
(* it answers (tag = the id in the reply header), so "the caller got the   *)
(* reply to its own request" is observable.  A caller may also be          *)
(* cancelled while its request is outstanding; the reply may arrive later. *)
(***************************************************************************)
EXTENDS Integers, Sequences, FiniteSets, TLC

CONSTANTS
    K,            \* number of concurrent callers
    Kinds,        \* what each caller may ask for: subset of ValueTypes \cup {"status"}
    MaxReplies,   \* number of replies the server sends
    MaxCancels,   \* number of callers that may be cancelled while their request is outstanding
    UnknownId,    \* an id that was never allocated
    AllowUnknown, \* TRUE: the server may use UnknownId (duplicates are always possible)
    CheckType,    \* TRUE: reply type is checked against the request (the code)
    FailAll,      \* TRUE: a reply with an unknown id fails every outstanding request (the code)
    Ends,         \* ways the session may end with requests outstanding: subset of
                  \* {"exit", "peer_close", "eof_mid", "conn_lost", "disconnect",
                  \*  "oserror", "brokenpipe"}
    EndLeavesWaiters, \* TRUE: an unclean loss of the connection does not run the
                  \* clean-up, the callers keep waiting (sensitivity)
    DropLate      \* TRUE: the reply to a request whose caller was cancelled is dropped
                  \* silently (the code); FALSE: it is treated like an unknown id

ValueTypes == {"handle", "data", "name", "attrs", "extreply"}
ReplyTypes == {"ok", "err"} \cup ValueTypes     \* FXP_STATUS(FX_OK), FXP_STATUS(error), FXP_*
Ids == 0 .. (K - 1)

VARIABLES
    kind,       \* Ids -> what the caller asked for (fixed per behaviour)
    waiting,    \* ids with a registered waiter (SFTPClientHandler._requests); the entry of
                \* a cancelled caller stays until a reply with its id arrives
    cancelled,  \* ids whose caller was cancelled (caller time-out, task.cancel(), or the
                \* parallel I/O layer cancelling sibling blocks after an error)
    outcome,    \* Ids -> <<"none">> | <<"value", type, tag>> | <<"none_value">> (a status
                \* request returned) | <<"err">> (server's error) | <<"badmsg">> | <<"cancelled">>
    closed,     \* the client ended the session (_cleanup after a bad id)
    nrep,       \* replies sent so far
    sent,       \* history: set of ids for which some reply was sent
    badId,      \* history: some reply carried an id with no entry in the table
    ended,      \* "no", or how the session ended (exit, loss of the connection, ...)
    lbl

vars == <<kind, waiting, cancelled, outcome, closed, nrep, sent, badId, ended, lbl>>
view == <<kind, waiting, cancelled, outcome, closed, nrep, sent, badId, ended>>

Init ==
    /\ kind \in [Ids -> Kinds]
    /\ waiting = Ids /\ cancelled = {}
    /\ outcome = [i \in Ids |-> <<"none">>]
    /\ closed = FALSE /\ nrep = 0 /\ sent = {} /\ badId = FALSE /\ ended = "no"
    /\ lbl = <<"init">>

Legal(k, t) == t \in {"ok", "err"} \/ t = k       \* k = "status": only status replies

Resolve(i, t) ==
    IF t = "err" THEN <<"err">>
    ELSE IF ~CheckType
         THEN (IF t = "ok" THEN <<"none_value">> ELSE <<"value", t, i>>)
    ELSE IF ~Legal(kind[i], t) THEN <<"badmsg">>          \* Unexpected response type
    ELSE IF t = "ok"
         THEN (IF kind[i] = "status" THEN <<"none_value">> ELSE <<"badmsg">>)  \* Unexpected FX_OK
    ELSE <<"value", t, i>>

\* _cleanup: every waiter that is not cancelled gets the exception
EndSession ==
    /\ closed' = TRUE
    /\ waiting' = IF FailAll THEN {} ELSE waiting
    /\ outcome' = IF FailAll
                  THEN [j \in Ids |-> IF j \in waiting /\ j \notin cancelled
                                      THEN <<"badmsg">> ELSE outcome[j]]
                  ELSE outcome

Reply(i, t) ==
    /\ ~closed /\ nrep < MaxReplies
    /\ nrep' = nrep + 1
    /\ lbl' = <<"reply", i, t>>
    /\ sent' = sent \cup {i}
    /\ badId' = (badId \/ i \notin waiting)
    /\ UNCHANGED <<kind, cancelled, ended>>
    /\ IF i \in waiting /\ i \notin cancelled
       THEN /\ waiting' = waiting \ {i}
            /\ outcome' = [outcome EXCEPT ![i] = Resolve(i, t)]
            /\ closed' = FALSE
       ELSE IF i \in waiting /\ DropLate
       THEN \* late reply to a cancelled request: the entry goes, nothing else happens
            /\ waiting' = waiting \ {i}
            /\ UNCHANGED <<outcome, closed>>
       ELSE \* unknown or duplicate id: "Invalid response id"
            EndSession

\* the caller of request i gives up (CancelledError in _make_request)
Cancel(i) ==
    /\ ~closed /\ i \in waiting /\ i \notin cancelled
    /\ Cardinality(cancelled) < MaxCancels
    /\ cancelled' = cancelled \cup {i}
    /\ outcome' = [outcome EXCEPT ![i] = <<"cancelled">>]
    /\ lbl' = <<"cancel", i>>
    /\ UNCHANGED <<kind, waiting, closed, nrep, sent, badId, ended>>

\* the session ends (the receive loop of the handler leaves through one of its
\* except clauses and runs _cleanup): every caller still waiting gets the error
End(e) ==
    /\ ~closed /\ e \in Ends
    /\ lbl' = <<"end", e>>
    /\ ended' = e /\ closed' = TRUE
    /\ IF EndLeavesWaiters /\ e \in {"conn_lost", "disconnect"}
       THEN UNCHANGED <<waiting, outcome>>
       ELSE /\ waiting' = {}
            /\ outcome' = [j \in Ids |-> IF j \in waiting /\ j \notin cancelled
                                          THEN <<"lost">> ELSE outcome[j]]
    /\ UNCHANGED <<kind, cancelled, nrep, sent, badId>>

Next ==
    \/ \E i \in Ids \cup (IF AllowUnknown THEN {UnknownId} ELSE {}), t \in ReplyTypes :
            Reply(i, t)
    \/ \E i \in Ids : Cancel(i)
    \/ \E e \in Ends : End(e)

Spec == Init /\ [][Next]_vars

-----------------------------------------------------------------------------
\* each caller that got a value got the payload of the reply to ITS request,
\* of the type its request allows
OwnReply ==
    \A i \in Ids : outcome[i][1] = "value" => (outcome[i][3] = i /\ outcome[i][2] = kind[i])
\* nobody is resolved without a reply carrying its id (or the session ending,
\* or the caller itself giving up)
NoPhantomReply ==
    \A i \in Ids : outcome[i] # <<"none">> => (i \in sent \/ closed \/ i \in cancelled)
\* after an unknown / duplicate id nobody is left hanging
UnknownIdFails == closed => (waiting = {} /\ \A i \in Ids : outcome[i] # <<"none">>)
\* while the session is alive, a caller waits iff it has not been answered
WaitsIffUnanswered ==
    ~closed => \A i \in Ids : (i \in waiting /\ i \notin cancelled) <=> (outcome[i] = <<"none">>)
\* one request's fate does not end the session: only a reply whose id has no
\* entry in the table does (in particular not the late reply to a request
\* whose caller was cancelled)
EndsOnlyOnBadId == closed => (badId \/ ended # "no")
\* however the session ends, nobody is left waiting
AllResolvedAtEnd == ended # "no" => \A i \in Ids : outcome[i] # <<"none">>
\* an outcome, once delivered, never changes (exactly one reply is consumed)
ExactlyOnce == [][\A i \in Ids : outcome[i] \notin {<<"none">>} => outcome'[i] = outcome[i]]_vars
\* a late reply to a cancelled request changes nothing for anybody
LateReplyHarmless ==
    [][(lbl'[1] = "reply" /\ lbl'[2] \in waiting /\ lbl'[2] \in cancelled)
         => (outcome' = outcome /\ closed' = closed)]_vars

\* vacuity witnesses
NeverValue == \A i \in Ids : outcome[i][1] # "value"
NeverClosed == ~closed
NeverLateReply == ~(\E i \in cancelled : i \in sent /\ ~closed /\
                       \E j \in Ids : outcome[j][1] = "value" /\ j \notin cancelled)
=============================================================================
