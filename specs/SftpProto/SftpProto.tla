------------------------------ MODULE SftpProto ------------------------------
(***************************************************************************)
(* Request / reply matching of asyncssh's SFTP client                      *)
(* (SFTPClientHandler._send_request, _make_request, _process_packet,       *)
(* _cleanup; sftp.py 2634-2696).                                           *)
(*                                                                         *)
(* K callers each have one request outstanding (ids 0..K-1, allocated in   *)
(* call order).  The server is the adversary: it sends replies <<id, type>>*)
(* in any order, for known, unknown and already answered ids, and of any   *)
(* type.  A reply of a value type carries a payload that names the request *)
(* it answers (tag = the id in the reply header), so "the caller got the   *)
(* reply to its own request" is observable.                                *)
(***************************************************************************)
EXTENDS Integers, Sequences, FiniteSets, TLC

CONSTANTS
    K,            \* number of concurrent callers
    Kinds,        \* what each caller may ask for: subset of ValueTypes \cup {"status"}
    MaxReplies,   \* number of replies the server sends
    UnknownId,    \* an id that was never allocated
    AllowUnknown, \* TRUE: the server may use UnknownId (duplicates are always possible)
    CheckType,    \* TRUE: reply type is checked against the request (the code)
    FailAll       \* TRUE: a reply with an unknown id fails every outstanding request (the code)

ValueTypes == {"handle", "data", "name", "attrs", "extreply"}
ReplyTypes == {"ok", "err"} \cup ValueTypes     \* FXP_STATUS(FX_OK), FXP_STATUS(error), FXP_*
Ids == 0 .. (K - 1)

VARIABLES
    kind,       \* Ids -> what the caller asked for (fixed per behaviour)
    waiting,    \* ids with a registered waiter (SFTPClientHandler._requests)
    outcome,    \* Ids -> <<"none">> | <<"value", type, tag>> | <<"none_value">> (a
                \* status request returned) | <<"err">> (server's error) | <<"badmsg">>
    closed,     \* the client ended the session (_cleanup after a bad id)
    nrep,       \* replies sent so far
    sent,       \* history: set of ids for which some reply was sent
    lbl

vars == <<kind, waiting, outcome, closed, nrep, sent, lbl>>
view == <<kind, waiting, outcome, closed, nrep, sent>>

Init ==
    /\ kind \in [Ids -> Kinds]
    /\ waiting = Ids
    /\ outcome = [i \in Ids |-> <<"none">>]
    /\ closed = FALSE /\ nrep = 0 /\ sent = {}
    /\ lbl = <<"init">>

Legal(k, t) == t \in {"ok", "err"} \/ t = k       \* k = "status": only status replies

Resolve(i, t) ==
    IF t = "err" THEN <<"err">>
    ELSE IF ~CheckType
         THEN (IF t = "ok" THEN <<"none_value">> ELSE <<"value", t, i>>)
    ELSE IF ~Legal(kind[i], t) THEN <<"badmsg">>          \* Unexpected response type
    ELSE IF t = "ok"
         THEN (IF kind[i] = "status" THEN <<"none_value">> ELSE <<"badmsg">>)  \* Unexpected FX_OK
    ELSE <<"value", t, i>>

Reply(i, t) ==
    /\ ~closed /\ nrep < MaxReplies
    /\ nrep' = nrep + 1
    /\ lbl' = <<"reply", i, t>>
    /\ sent' = sent \cup {i}
    /\ UNCHANGED kind
    /\ IF i \in waiting
       THEN /\ waiting' = waiting \ {i}
            /\ outcome' = [outcome EXCEPT ![i] = Resolve(i, t)]
            /\ closed' = FALSE
       ELSE \* unknown or duplicate id: "Invalid response id"
            /\ closed' = TRUE
            /\ waiting' = IF FailAll THEN {} ELSE waiting
            /\ outcome' = IF FailAll
                          THEN [j \in Ids |-> IF j \in waiting THEN <<"badmsg">> ELSE outcome[j]]
                          ELSE outcome

Next == \E i \in Ids \cup (IF AllowUnknown THEN {UnknownId} ELSE {}), t \in ReplyTypes :
            Reply(i, t)

Spec == Init /\ [][Next]_vars

-----------------------------------------------------------------------------
\* each caller that got a value got the payload of the reply to ITS request,
\* of the type its request allows
OwnReply ==
    \A i \in Ids : outcome[i][1] = "value" => (outcome[i][3] = i /\ outcome[i][2] = kind[i])
\* nobody is resolved without a reply carrying its id (or the session ending)
NoPhantomReply ==
    \A i \in Ids : outcome[i] # <<"none">> => (i \in sent \/ closed)
\* after an unknown / duplicate id nobody is left hanging
UnknownIdFails == closed => (waiting = {} /\ \A i \in Ids : outcome[i] # <<"none">>)
\* while the session is alive, a caller waits iff it has not been answered
WaitsIffUnanswered == ~closed => \A i \in Ids : (i \in waiting) <=> (outcome[i] = <<"none">>)
\* an outcome, once delivered, never changes (exactly one reply is consumed)
ExactlyOnce == [][\A i \in Ids : outcome[i] # <<"none">> => outcome'[i] = outcome[i]]_vars

\* vacuity witnesses
NeverValue == \A i \in Ids : outcome[i][1] # "value"
NeverClosed == ~closed
=============================================================================
