CONSTANTS
  K = 3
  Kinds = {"status", "handle", "data", "name", "attrs", "extreply"}
  MaxReplies = 4
  UnknownId = 99
  CheckType = TRUE
  FailAll = TRUE
SPECIFICATION Spec
VIEW view
INVARIANT OwnReply
INVARIANT NoPhantomReply
INVARIANT UnknownIdFails
INVARIANT WaitsIffUnanswered
PROPERTY ExactlyOnce
CHECK_DEADLOCK FALSE
