----------------------------- MODULE SftpSrvCases -----------------------------
(***************************************************************************)
(* Server side of C14 as a decision table: what SFTPServerHandler owes the *)
(* client for one request (sftp.py _process_packet 5970-6125, recv_packets *)
(* 2577-2595), and the errno -> status table (6069-6114 + SFTPError.encode *)
(* 995-1008).  Every case is an initial state; TLC checks the table's      *)
(* consistency properties and prints one line per case, which the harness  *)
(* materialises as real SFTP packets (every prefix of the body for "trunc",*)
(* several tails for "extend").                                            *)
(***************************************************************************)
EXTENDS Integers, Sequences, FiniteSets, TLC

CONSTANTS
    Emit,             \* TRUE: print the table (run with -workers 1)
    TypeAfterEncode   \* TRUE: the reply type is the success type only once the result has
                      \* been encoded (the code); FALSE: it is fixed as soon as the request
                      \* handler returned (sensitivity variant)

Versions == 3 .. 6

\* request types and the first version that defines them ("x_" = extended).  The
\* server implements every type in every version, so Since is informative only.
Since ==
    [open |-> 3, close |-> 3, read |-> 3, write |-> 3, lstat |-> 3, fstat |-> 3,
     setstat |-> 3, fsetstat |-> 3, opendir |-> 3, readdir |-> 3, remove |-> 3,
     mkdir |-> 3, rmdir |-> 3, realpath |-> 3, stat |-> 3, rename |-> 3,
     readlink |-> 3, symlink |-> 3, link |-> 6, block |-> 6, unblock |-> 6,
     x_posix_rename |-> 3, x_statvfs |-> 3, x_fstatvfs |-> 3, x_hardlink |-> 3,
     x_fsync |-> 3, x_lsetstat |-> 3, x_limits |-> 3, x_copy_data |-> 3,
     x_ranges |-> 3]
ReqTypes == DOMAIN Since

RetType(t) ==
    CASE t \in {"open", "opendir"} -> "handle"
      [] t = "read" -> "data"
      [] t \in {"lstat", "fstat", "stat"} -> "attrs"
      [] t \in {"readdir", "realpath", "readlink"} -> "name"
      [] t \in {"x_statvfs", "x_fstatvfs", "x_limits", "x_ranges"} -> "extreply"
      [] OTHER -> "status"

(* What can be wrong with a request                                         *)
(*   none          well-formed                                              *)
(*   trunc         body cut anywhere before its end                         *)
(*   extend        well-formed body followed by extra bytes (v6 tolerates  *)
(*                 them by design, some v3-v5 handlers ignore them: either *)
(*                 the normal reply or an error status is legal)           *)
(*   unknown_type  a type number the server does not implement              *)
(*   unknown_ext   FXP_EXTENDED with a name the server does not implement   *)
(*   trunc_ext     FXP_EXTENDED whose name string is cut                    *)
(*   short_frame   a packet too short to hold type + request id             *)
Damages == {"none", "trunc", "extend", "unknown_type", "unknown_ext", "trunc_ext",
            "short_frame"}

HasId(d) == d # "short_frame"

\* legal reply types for a case; "status_err" = FXP_STATUS with a code # FX_OK
ReplyTypes(v, t, d) ==
    IF d \in {"trunc", "unknown_type", "unknown_ext", "trunc_ext"} THEN {"status_err"}
    ELSE {"status_ok", "status_err", RetType(t)} \ (IF RetType(t) = "status" THEN {} ELSE {"status_ok"})

Owed(v, t, d) ==
    IF HasId(d)
    THEN [replies |-> 1, types |-> ReplyTypes(v, t, d), alive |-> TRUE]
    ELSE [replies |-> 0, types |-> {}, alive |-> FALSE]    \* framing error: may end, no reply owed

-----------------------------------------------------------------------------
(* errno -> status code, per protocol version *)
Errnos == {"ENOENT", "EACCES", "EEXIST", "EROFS", "ENOSPC", "EDQUOT", "ENOTEMPTY",
           "ENOTDIR", "ENAMETOOLONG", "EILSEQ", "ELOOP", "EINVAL", "EISDIR",
           "EIO", "EPERM", "EBADF", "EBUSY", "EXDEV", "EMFILE",
           \* the SHAPE of the exception is a dimension too: an OSError need not carry an errno
           \* or a message - OSError("text") (errno and strerror None), io.UnsupportedOperation
           \* (what a file object opened for writing raises on read), OSError(EIO, None) (errno
           \* without a message), OSError() (no arguments at all): all are FAILURE, and like
           \* every other row they earn exactly one well-formed FXP_STATUS
           "NOERRNO", "UNSUPPORTED", "EIO_NOMSG", "NOARGS"}

FX == [OK |-> 0, EOF |-> 1, NO_SUCH_FILE |-> 2, PERMISSION_DENIED |-> 3, FAILURE |-> 4,
       BAD_MESSAGE |-> 5, OP_UNSUPPORTED |-> 8, FILE_ALREADY_EXISTS |-> 11,
       WRITE_PROTECT |-> 12, NO_SPACE_ON_FILESYSTEM |-> 14, QUOTA_EXCEEDED |-> 15,
       DIR_NOT_EMPTY |-> 18, NOT_A_DIRECTORY |-> 19, INVALID_FILENAME |-> 20,
       LINK_LOOP |-> 21, INVALID_PARAMETER |-> 23, FILE_IS_A_DIRECTORY |-> 24]

LastCode(v) == CASE v = 3 -> 8 [] v = 4 -> 13 [] v = 5 -> 17 [] v = 6 -> 31

BaseCode(e) ==
    CASE e = "ENOENT" -> FX.NO_SUCH_FILE
      [] e = "EACCES" -> FX.PERMISSION_DENIED
      [] e = "EEXIST" -> FX.FILE_ALREADY_EXISTS
      [] e = "EROFS" -> FX.WRITE_PROTECT
      [] e = "ENOSPC" -> FX.NO_SPACE_ON_FILESYSTEM
      [] e = "EDQUOT" -> FX.QUOTA_EXCEEDED
      [] e = "ENOTEMPTY" -> FX.DIR_NOT_EMPTY
      [] e = "ENOTDIR" -> FX.NOT_A_DIRECTORY
      [] e \in {"ENAMETOOLONG", "EILSEQ"} -> FX.INVALID_FILENAME
      [] e = "ELOOP" -> FX.LINK_LOOP
      [] e = "EINVAL" -> FX.INVALID_PARAMETER
      [] e = "EISDIR" -> FX.FILE_IS_A_DIRECTORY
      [] OTHER -> FX.FAILURE

\* a code the negotiated version does not define is sent as FAILURE, except
\* "not a directory", which older versions express as "no such file"
Downgrade(code, v) ==
    IF code = FX.NOT_A_DIRECTORY /\ v < 6 THEN FX.NO_SUCH_FILE
    ELSE IF code > LastCode(v) THEN FX.FAILURE
    ELSE code

Status(e, v) == Downgrade(BaseCode(e), v)

\* errors raised by the application as SFTPError(code) pass through the same filter;
\* NotImplementedError -> OP_UNSUPPORTED
AppCodes == {2, 3, 4, 5, 8, 9, 10, 11, 12, 13, 14, 15, 16, 17, 18, 19, 20, 21, 22, 23, 24,
             25, 26, 27, 28, 29, 30, 31}

-----------------------------------------------------------------------------
(***************************************************************************)
(* Fault class "the handler succeeded but its result cannot be encoded":   *)
(* the application (an SFTPServer subclass, or the file system through     *)
(* os.stat) hands back attributes / names / file system data that the      *)
(* negotiated version cannot express (value out of range, wrong Python     *)
(* type, wrong shape).  Owed: still exactly one reply with the request's   *)
(* id, either the success type with a body that parses for the version, or *)
(* a well-formed FXP_STATUS -- never a success type around a status body.  *)
(* Encodable(v, t, f) is the model's prediction which of the two it is.    *)
(***************************************************************************)
AttrFaults == {"a_plain", "a_empty", "a_float_time", "a_owner_bytes", "a_neg_time",
               "a_time_2_32", "a_time_2_64", "a_uid_2_32", "a_uid_neg", "a_size_2_64",
               "a_size_neg", "a_perm_2_32", "a_ns_2_32", "a_ns_neg", "a_owner_only",
               "a_owner_surrogate", "a_type_300", "a_nlink_2_32", "a_size_str",
               "a_ext_bad", "real_neg", "real_far"}
ShapeFaults == {"s_none", "s_int", "s_str", "s_tuple"}
NameFaults == {"n_plain", "n_str", "n_surrogate", "n_int", "n_none"}
DirNameFaults == NameFaults \cup {"n_longname_int"}
VfsFaults == {"v_plain", "v_neg", "v_2_64"}

UnencKinds == {"stat", "lstat", "fstat", "readdir", "realpath", "realpath_stat", "readlink",
               "x_statvfs", "x_fstatvfs"}
FaultsOf(t) ==
    CASE t \in {"stat", "lstat", "fstat"} -> AttrFaults \cup ShapeFaults
      [] t = "readdir" -> (AttrFaults \ {"real_neg", "real_far"}) \cup {"real_dir"}
                          \cup DirNameFaults \cup ShapeFaults
      [] t = "realpath_stat" -> AttrFaults \cup ShapeFaults
      [] t \in {"realpath", "readlink"} -> NameFaults
      [] t \in {"x_statvfs", "x_fstatvfs"} -> VfsFaults \cup ShapeFaults

UnencRet(t) == IF t = "realpath_stat" THEN "name" ELSE RetType(t)

AttrEncodable(v, f) ==
    CASE f \in {"a_plain", "a_empty", "a_float_time", "a_owner_bytes"} -> TRUE
      [] f \in {"a_neg_time", "a_time_2_64", "a_size_2_64", "a_size_neg", "a_perm_2_32",
                "a_owner_surrogate", "a_size_str", "a_ext_bad", "real_neg", "real_dir"} -> FALSE
      [] f \in {"a_time_2_32", "a_uid_2_32", "a_uid_neg", "a_owner_only", "real_far"} -> v >= 4
      [] f \in {"a_ns_2_32", "a_ns_neg"} -> v = 3      \* v3 has no sub-second fields
      [] f = "a_type_300" -> v <= 4    \* v3: no type byte; v4: types above FIFO fold to SPECIAL
      [] f = "a_nlink_2_32" -> v < 6

Encodable(v, t, f) ==
    IF t = "realpath_stat" /\ v < 6 THEN TRUE             \* no stat before v6
    ELSE IF f \in ShapeFaults THEN FALSE
    ELSE IF f \in AttrFaults \cup {"real_dir"} THEN AttrEncodable(v, f)
    ELSE IF f = "n_plain" THEN TRUE
    ELSE IF f = "n_str"                \* a str name: the v3 long name is built from bytes
         THEN ~(t = "readdir" /\ v = 3)
    ELSE IF f = "n_longname_int" THEN v >= 4              \* longname travels only in v3
    ELSE IF f \in NameFaults THEN FALSE
    ELSE f = "v_plain"

\* the type the server puts on the reply
SentType(v, t, f) ==
    IF Encodable(v, t, f) THEN UnencRet(t)
    ELSE IF TypeAfterEncode THEN "status_err" ELSE "mistyped_" \o UnencRet(t)

Cases ==
    {[k |-> "req", v |-> v, t |-> t, d |-> d, e |-> "-", code |-> 0] :
        v \in Versions, t \in ReqTypes, d \in Damages \ {"unknown_type", "unknown_ext",
                                                        "trunc_ext", "short_frame"}}
    \cup {[k |-> "req", v |-> v, t |-> "-", d |-> d, e |-> "-", code |-> 0] :
        v \in Versions, d \in {"unknown_type", "unknown_ext", "trunc_ext", "short_frame"}}
    \cup {[k |-> "errno", v |-> v, t |-> "stat", d |-> "none", e |-> e, code |-> 0] :
        v \in Versions, e \in Errnos}
    \cup {[k |-> "apperr", v |-> v, t |-> "stat", d |-> "none", e |-> "-", code |-> cd] :
        v \in Versions, cd \in AppCodes}
    \* a data request the handle's access mode does not allow (WRITE on a handle opened for
    \* reading; READ on one opened for writing only - the v3/v4 open flags; v5/v6 name the access
    \* by ACE masks and are exercised with the first): the file object itself refuses, with an
    \* OSError that carries no errno (io.UnsupportedOperation): FAILURE, one reply, session alive
    \cup {[k |-> "access", v |-> v, t |-> op, d |-> "none", e |-> "-", code |-> 0] :
        v \in Versions, op \in {"write_rdonly"}}
    \cup {[k |-> "access", v |-> v, t |-> op, d |-> "none", e |-> "-", code |-> 0] :
        v \in Versions \cap {3, 4}, op \in {"read_wronly"}}
    \cup UNION {{[k |-> "unenc", v |-> v, t |-> t, d |-> "none", e |-> f, code |-> 0] :
                    v \in Versions, f \in FaultsOf(t)} : t \in UnencKinds}

VARIABLE case
Init == case \in Cases
Next == UNCHANGED case
Spec == Init /\ [][Next]_case

Expected ==
    IF case.k = "req"
    THEN LET o == Owed(case.v, IF case.t = "-" THEN "open" ELSE case.t, case.d)
         IN  <<case.k, case.v, case.t, case.d, o.replies, o.types, o.alive>>
    ELSE IF case.k = "errno"
    THEN <<case.k, case.v, case.e, Status(case.e, case.v)>>
    ELSE IF case.k = "unenc"
    THEN <<case.k, case.v, case.t, case.e, SentType(case.v, case.t, case.e),
           {"status_err", UnencRet(case.t)}>>
    ELSE IF case.k = "access"
    THEN <<case.k, case.v, case.t, FX.FAILURE>>
    ELSE <<case.k, case.v, case.code, Downgrade(case.code, case.v)>>

Table == Emit => PrintT(Expected)

-----------------------------------------------------------------------------
(* consistency of the table *)
\* exactly one reply is owed whenever the request can be attributed to an id,
\* an error status is always a legal answer, and the session survives
OneReplyOwed ==
    case.k = "req" =>
        LET o == Owed(case.v, IF case.t = "-" THEN "open" ELSE case.t, case.d)
        IN  HasId(case.d) => (o.replies = 1 /\ "status_err" \in o.types /\ o.alive)
\* a damaged request never earns a success
DamageIsError ==
    (case.k = "req" /\ case.d \in {"trunc", "unknown_type", "unknown_ext", "trunc_ext"}) =>
        Owed(case.v, IF case.t = "-" THEN "open" ELSE case.t, case.d).types = {"status_err"}
\* the status code sent is one the negotiated version defines, and never OK / EOF
CodeInVersion ==
    /\ case.k = "errno" => (Status(case.e, case.v) \in 2 .. LastCode(case.v))
    /\ case.k = "apperr" => (Downgrade(case.code, case.v) \in 2 .. LastCode(case.v))
\* v6 keeps every code as it is
V6Exact ==
    /\ (case.k = "errno" /\ case.v = 6) => Status(case.e, 6) = BaseCode(case.e)
    /\ (case.k = "apperr" /\ case.v = 6) => Downgrade(case.code, 6) = case.code

\* a result that cannot be encoded is reported as an error status, never under the
\* success type
WellTypedReply ==
    case.k = "unenc" => SentType(case.v, case.t, case.e) \in {"status_err", UnencRet(case.t)}

\* sensitivity: without the version filter the table would send undefined codes
NoFilterOk == case.k = "errno" => BaseCode(case.e) <= LastCode(case.v)
=============================================================================
