-------------------------------- MODULE Scp --------------------------------
(***************************************************************************)
(* X01 - the SCP protocol of asyncssh (asyncssh/scp.py).                   *)
(*                                                                         *)
(* An SCP transfer is a dialogue between a SOURCE (scp -f, _SCPSource) and *)
(* a SINK (scp -t, _SCPSink) over two byte streams:                        *)
(*                                                                         *)
(*   "sq"  source -> sink : records  C<mode> <size> <name>, D<mode> 0      *)
(*         <name>, E, T<mtime> 0 <atime> 0, error records \x01/\x02 <text>,*)
(*         file data, and after the data one status (\0, or \x01 <text>)   *)
(*   "sr"  sink -> source : responses \0 (ok), \x01 <text> (warning),      *)
(*         \x02 <text> (fatal)                                             *)
(*                                                                         *)
(* In a remote-to-remote copy (_SCPCopier) the caller sits between two     *)
(* servers: source <-sq/sr-> copier <-kq/kr-> sink.                        *)
(*                                                                         *)
(* Either end can be the CODE (a transcription of scp.py, running as the   *)
(* caller of asyncssh.scp() or as the server started by run_scp_server) or *)
(* FREE (any legal peer: used to generate the scripts that the harness     *)
(* plays against the real code through a hand-written peer).               *)
(*                                                                         *)
(* Streams are sequences of tokens; every token that requires a response   *)
(* carries a ghost request id and every response the id it answers, so     *)
(* "the two sides agree on what the next bytes are" is checkable.          *)
(*                                                                         *)
(* Source tree: nodes 1..N numbered in the order the source walks them     *)
(* (pre-order); par = 0 for the items matched by the source path.  A node's*)
(* number is also its name, its mode tag and its time tag; block i of file *)
(* n is the pair <<n, i>>.                                                 *)
(***************************************************************************)
EXTENDS Integers, Sequences, FiniteSets, TLC

CONSTANTS
    MaxNodes,       \* source trees have 1..MaxNodes nodes (0: no tree, free source)
    Sizes,          \* file sizes in blocks
    Topo,           \* "direct" | "r2r"
    SrcRole,        \* "code" | "free"
    SnkRole,        \* "code" | "free"
    SrcServer,      \* the code source is the server side (errors are swallowed)
    SnkServer,      \* the code sink is the server side
    RecSet, PresSet, DirFlagSet, HandlerSet,    \* subsets of BOOLEAN: -r, -p, -d, error_handler
    DstKinds,       \* subset of {"dir", "none", "file"}: what the target is beforehand
    RefKinds,       \* subset of {"sopen", "sread", "kcreate", "kwrite", "kstat"}
    MaxRefuse,      \* at most this many refused items
    AllowCut,       \* "no" | "any": the connection may be lost at any point |
                    \* "quiet": only while the code side waits for its peer
    MaxRec,         \* free source: number of records
    MaxName,        \* free source: names 1..MaxName
    TopMax,         \* at most this many top-level items
    KeepLog,        \* FALSE: no history (liveness runs cannot hide it with a VIEW)
    \* ---- rules (TRUE = what a correct implementation does) ----
    WaitAfterData,  \* the source awaits the sink's response after data + status
    WarnIsFatal,    \* (wrong when TRUE) the source treats a warning as fatal
    FatalIsWarn,    \* (wrong when TRUE) a fatal error is handled like a warning
    SendEmptyE,     \* the source sends E also for a directory without entries
    SinkReadsStatus,\* the sink consumes the status that follows the data
    RecordErrors,   \* a handled warning is passed to the error_handler
    StatBeforeReply,\* the sink sets attributes before its final reply (FALSE: pinned tree)
    ZeroFillFirst,  \* a failing first read is zero-filled like later ones (FALSE: pinned tree)
    CopierRightSide \* the copier forwards the sink's final response to the source

DST   == 900        \* pseudo item: the target itself (-d failure)
CONN  == 901        \* pseudo item: connection lost
CRASH == 902        \* pseudo item: a non-SCP exception escaped

Chans == {"sq", "sr", "kq", "kr"}
R2R == Topo = "r2r"
KIn  == IF R2R THEN "kq" ELSE "sq"
KOut == IF R2R THEN "kr" ELSE "sr"

Min(S) == CHOOSE x \in S : \A y \in S : x <= y
Last(q) == q[Len(q)]
Front(q) == SubSeq(q, 1, Len(q) - 1)

-----------------------------------------------------------------------------
(* Source trees *)
RECURSIVE AncOf(_, _)
AncOf(t, n) == IF n = 0 \/ t[n].par = 0 THEN {} ELSE {t[n].par} \cup AncOf(t, t[n].par)

NodeRecs(n) == [par : 0 .. (n - 1), kd : {"f", "d"}, size : Sizes \cup {0}]

TreeOk(t) ==
    /\ \A n \in DOMAIN t :
         /\ t[n].par < n
         /\ t[n].kd = "d" => t[n].size = 0
         /\ t[n].kd = "f" => t[n].size \in Sizes
         /\ t[n].par # 0 => t[t[n].par].kd = "d"
         \* pre-order numbering: the parent is the previous node or one of its ancestors
         /\ n > 1 => t[n].par \in ({0, n - 1} \cup AncOf(t, n - 1))
    /\ Cardinality({n \in DOMAIN t : t[n].par = 0}) <= TopMax

RECURSIVE TreesOf(_)
TreesOf(n) ==
    IF n = 0 THEN {<<>>}
    ELSE {t \in {Append(u, r) : u \in TreesOf(n - 1), r \in NodeRecs(n)} : TreeOk(t)}

Trees == IF SrcRole = "free" THEN {<<>>}
         ELSE UNION {TreesOf(n) : n \in 1 .. MaxNodes}

NamesOf(t) == IF SrcRole = "free" THEN 1 .. MaxName ELSE DOMAIN t

\* refusal patterns: which item is refused, by whom, at which point
RefOk(t, pres, r) ==
    /\ Cardinality({n \in DOMAIN r : r[n] # "none"}) <= MaxRefuse
    /\ \A n \in DOMAIN r :
         /\ r[n] \in {"sopen", "sread"} => (SrcRole = "code" /\ t[n].kd = "f")
         /\ r[n] = "sread" => t[n].size >= 1
         /\ r[n] \in {"kcreate", "kwrite", "kstat"} => SnkRole = "code"
         /\ (r[n] = "kwrite" /\ SrcRole = "code") => (t[n].kd = "f" /\ t[n].size >= 1)
         /\ r[n] = "kstat" => pres

\* (asyncssh.scp() passes -d exactly when it is given several source paths; the
\* source itself never looks at the flag, so nothing is lost for the sink)
Cfgs ==
    {c \in [tree : Trees, rec : RecSet, pres : PresSet, mustdir : DirFlagSet,
            handler : HandlerSet, dst : DstKinds] :
        (SrcRole = "code" /\ c.mustdir) =>
            Cardinality({n \in DOMAIN c.tree : c.tree[n].par = 0}) > 1}

-----------------------------------------------------------------------------
VARIABLES
    cfg,        \* the case (constant during a behaviour) + .ref
    ch,         \* [Chans -> Seq(token)]
    closed,     \* [Chans -> BOOLEAN]: the writer is gone (EOF after the queue drains)
    cut,        \* the connection was lost
    quit,       \* a free peer went away in the middle of the dialogue (ghost)
    desync,     \* a reader met bytes of a kind it did not expect (ghost)
    refused,    \* items actually refused so far (ghost)
    fatalSeen,  \* the code side was told of a fatal error by its peer (ghost)
    s, k, c,    \* source, sink, copier
    fs,         \* destination file system: path -> entry
    nid,        \* next request id (ghost)
    log         \* everything written / decided, in order (replay); hidden by VIEW

vars == <<cfg, ch, closed, cut, quit, desync, refused, fatalSeen, s, k, c, fs, nid, log>>
view == <<cfg, ch, closed, cut, quit, desync, refused, fatalSeen, s, k, c, fs, nid>>

N == Len(cfg.tree)
Ref(n) == IF n \in DOMAIN cfg.ref THEN cfg.ref[n] ELSE "none"
SubEnd(n) ==
    LET after == {m \in (n + 1) .. N : n \notin AncOf(cfg.tree, m)}
    IN  IF after = {} THEN N + 1 ELSE Min(after)

Tok(t, n, z, id) == [t |-> t, n |-> n, z |-> z, id |-> id]
RespT == {"ok", "warn", "fatal"}
ReqT == {"T", "C", "D", "E", "W", "F", "data", "st"}

CanRead(x) == ch[x] # <<>>
AtEOF(x) == ch[x] = <<>> /\ closed[x]

IsDir(f, p) == p \in DOMAIN f /\ f[p].kd = "d"
\* sz: the size announced for the file (ghost, lets the harness cut blocks into bytes)
FileEntry == [kd |-> "f", data |-> <<>>, perm |-> 0, tm |-> 0, sz |-> 0]
DirEntry == [kd |-> "d", data |-> <<>>, perm |-> 0, tm |-> 0, sz |-> 0]
OldFile == [kd |-> "f", data |-> <<<<0, 0>>>>, perm |-> 0, tm |-> 0, sz |-> 1]
Put(f, p, e) == [q \in DOMAIN f \cup {p} |-> IF q = p THEN e ELSE f[q]]
\* a new entry at path p changes the modification time of its directory
Create(f, p, e) ==
    LET g == Put(f, p, e)
    IN  IF p # <<>> /\ Front(p) \in DOMAIN f THEN [g EXCEPT ![Front(p)].tm = 0] ELSE g

\* one step of one party = a delta applied to the state
D0 == [me |-> <<>>, out |-> <<>>, eat |-> "", ref |-> {}, des |-> FALSE,
       useid |-> FALSE, close |-> {}, fs |-> fs, quit |-> FALSE, fat |-> FALSE]
Out(x, tok) == [to |-> x, tok |-> tok]

-----------------------------------------------------------------------------
(* SOURCE, code: _SCPSource.run / _send_files / _send_dir / _send_file *)

S0 == [pc |-> "init", n |-> 1, open |-> <<>>, blk |-> 0, lexc |-> FALSE, wid |-> 0,
       rep |-> {}, raised |-> 0, nrec |-> 0, kind |-> "", size |-> 0]

\* handle_error on the source side for an error about item x; afterwards the
\* walk goes on at node nx with open directories opn
SrcErr(st, x, fatal, nx, opn) ==
    LET f == (fatal /\ ~FatalIsWarn) \/ WarnIsFatal
    IN  IF SrcServer \/ (cfg.handler /\ ~f)
        THEN [st EXCEPT !.pc = "walk", !.n = nx, !.open = opn, !.blk = 0, !.lexc = FALSE,
                        !.rep = IF SrcServer \/ ~RecordErrors THEN @ ELSE @ \cup {x}]
        ELSE [st EXCEPT !.pc = "closing", !.raised = x]

SrcLost == IF SrcServer THEN [s EXCEPT !.pc = "closing"]
           ELSE [s EXCEPT !.pc = "closing", !.raised = CONN]

SrcAsk(st, pc, t, n, z) ==
    [D0 EXCEPT !.me = [st EXCEPT !.pc = pc, !.wid = nid],
               !.out = <<Out("sq", Tok(t, n, z, nid))>>, !.useid = TRUE]

\* _send_files after the optional T request
SrcItem(st) ==
    LET n == st.n
        nd == cfg.tree[n]
    IN  IF nd.kd = "d" /\ cfg.rec THEN SrcAsk(st, "D_wait", "D", n, 0)
        ELSE IF nd.kd = "d" THEN      \* 'Not a regular file'
            [D0 EXCEPT !.me = SrcErr(st, n, FALSE, SubEnd(n), st.open),
                       !.out = <<Out("sq", Tok("W", n, 0, 0))>>, !.ref = {n}]
        ELSE IF Ref(n) = "sopen" THEN \* open() fails
            [D0 EXCEPT !.me = SrcErr(st, n, FALSE, n + 1, st.open),
                       !.out = <<Out("sq", Tok("W", n, 0, 0))>>, !.ref = {n}]
        ELSE SrcAsk(st, "C_wait", "C", n, nd.size)

SrcWalk ==
    LET n == s.n IN
    IF s.open # <<>> /\ (n > N \/ Last(s.open) \notin AncOf(cfg.tree, n))
    THEN LET d == Last(s.open) IN
         IF SendEmptyE \/ SubEnd(d) # d + 1
         THEN {SrcAsk(s, "E_wait", "E", d, 0)}
         ELSE {[D0 EXCEPT !.me = [s EXCEPT !.open = Front(s.open)]]}
    ELSE IF n > N THEN {[D0 EXCEPT !.me = [s EXCEPT !.pc = "closing"]]}
    ELSE IF cfg.pres THEN {SrcAsk(s, "T_wait", "T", n, 0)}
    ELSE {SrcItem(s)}

SrcResp ==
    IF AtEOF("sr") THEN {[D0 EXCEPT !.me = SrcLost]}
    ELSE IF ~CanRead("sr") THEN {}
    ELSE LET r == Head(ch["sr"])
             n == s.n
             eat == [D0 EXCEPT !.eat = "sr"]
         IN
         IF r.t \notin RespT \/ r.id # s.wid
         THEN {[eat EXCEPT !.me = [s EXCEPT !.pc = "closing"], !.des = TRUE]}
         ELSE IF s.pc = "init"
         THEN IF r.t = "ok" THEN {[eat EXCEPT !.me = [s EXCEPT !.pc = "walk"]]}
              ELSE \* the exception leaves the loop in run(): nothing is sent
                   LET e == SrcErr(s, r.n, r.t = "fatal", N + 1, <<>>)
                   IN  {[eat EXCEPT !.me = [e EXCEPT !.pc = "closing"],
                                    !.fat = r.t = "fatal"]}
         ELSE IF r.t = "ok"
         THEN CASE s.pc = "T_wait" ->
                     LET d == SrcItem(s) IN {[d EXCEPT !.eat = "sr"]}
                [] s.pc = "C_wait" ->
                     {[eat EXCEPT !.me = [s EXCEPT !.pc = "data", !.blk = 0, !.lexc = FALSE]]}
                [] s.pc = "D_wait" ->
                     {[eat EXCEPT !.me = [s EXCEPT !.pc = "walk", !.n = n + 1,
                                                   !.open = Append(s.open, n)]]}
                [] s.pc = "E_wait" ->
                     {[eat EXCEPT !.me = [s EXCEPT !.pc = "walk", !.open = Front(s.open)]]}
                [] s.pc = "fin_wait" ->
                     IF s.lexc THEN {[eat EXCEPT !.me = SrcErr(s, n, FALSE, n + 1, s.open)]}
                     ELSE {[eat EXCEPT !.me = [s EXCEPT !.pc = "walk", !.n = n + 1]]}
         ELSE \* warning or fatal error
              LET f == r.t = "fatal" IN
              IF s.pc = "E_wait"
              THEN {[eat EXCEPT !.me = SrcErr(s, r.n, f, s.n, Front(s.open)), !.fat = f]}
              ELSE {[eat EXCEPT !.me = SrcErr(s, r.n, f, SubEnd(n), s.open), !.fat = f]}

SrcData ==
    LET n == s.n
        sz == cfg.tree[n].size
    IN  IF s.blk < sz
        THEN IF Ref(n) = "sread" /\ s.blk + 1 = sz /\ ~s.lexc
             THEN IF sz = 1 /\ ~ZeroFillFirst
                  THEN \* pinned tree: UnboundLocalError escapes _send_file
                       {[D0 EXCEPT !.me = [s EXCEPT !.pc = "closing",
                                             !.raised = IF SrcServer THEN 0 ELSE CRASH],
                                   !.ref = {n}]}
                  ELSE {[D0 EXCEPT !.me = [s EXCEPT !.blk = s.blk + 1, !.lexc = TRUE],
                                   !.out = <<Out("sq", Tok("data", n, 0, 0))>>, !.ref = {n}]}
             ELSE {[D0 EXCEPT !.me = [s EXCEPT !.blk = s.blk + 1],
                              !.out = <<Out("sq", Tok("data", n, IF s.lexc THEN 0 ELSE s.blk + 1, 0))>>]}
        ELSE LET st == IF s.lexc THEN 0 ELSE 1 IN
             IF WaitAfterData THEN {SrcAsk(s, "fin_wait", "st", n, st)}
             ELSE LET nxt == IF s.lexc THEN SrcErr(s, n, FALSE, n + 1, s.open)
                             ELSE [s EXCEPT !.pc = "walk", !.n = n + 1]
                  IN  {[D0 EXCEPT !.me = nxt, !.out = <<Out("sq", Tok("st", n, st, nid))>>,
                                  !.useid = TRUE]}

SrcCode ==
    CASE s.pc = "walk" -> SrcWalk
      [] s.pc \in {"init", "T_wait", "C_wait", "D_wait", "E_wait", "fin_wait"} -> SrcResp
      [] s.pc = "data" -> SrcData
      [] s.pc = "closing" -> {[D0 EXCEPT !.me = [s EXCEPT !.pc = "done"], !.close = {"sq"}]}
      [] OTHER -> {}

-----------------------------------------------------------------------------
(* SOURCE, free: any legal scp -f *)
\* the free peer goes away in the middle of the dialogue
FQuit(st, who) == [D0 EXCEPT !.me = [st EXCEPT !.pc = "closing"], !.quit = TRUE,
                             !.out = <<Out("quit", Tok(who, 0, 0, 0))>>]
\* a source that stops between two items has simply finished
FEnd(st, who) == [D0 EXCEPT !.me = [st EXCEPT !.pc = "closing"],
                            !.out = <<Out("quit", Tok(who, 0, 0, 0))>>]

SrcFree ==
    CASE s.pc = "init" ->
           IF AtEOF("sr") THEN {[D0 EXCEPT !.me = [s EXCEPT !.pc = "closing"]]}
           ELSE IF ~CanRead("sr") THEN {}
           ELSE LET r == Head(ch["sr"]) IN
                {[D0 EXCEPT !.eat = "sr",
                            !.me = [s EXCEPT !.pc = IF r.t = "ok" THEN "idle" ELSE "closing"]]}
      [] s.pc = "idle" ->
           {FEnd(s, "src")} \cup
           (IF s.nrec >= MaxRec THEN {} ELSE
            LET st == [s EXCEPT !.nrec = s.nrec + 1] IN
            {SrcAsk([st EXCEPT !.kind = "T"], "wait", "T", 10 + s.nrec, 0),
             SrcAsk([st EXCEPT !.kind = "E"], "wait", "E", 0, 0),
             [D0 EXCEPT !.me = st, !.out = <<Out("sq", Tok("W", 800 + s.nrec, 0, 0))>>,
                        !.ref = {800 + s.nrec}],
             [D0 EXCEPT !.me = [st EXCEPT !.pc = "closing"], !.ref = {800 + s.nrec},
                        !.out = <<Out("sq", Tok("F", 800 + s.nrec, 0, 0))>>]}
            \cup {SrcAsk([st EXCEPT !.kind = "D", !.n = nm], "wait", "D", nm, 0) :
                     nm \in 1 .. MaxName}
            \cup {SrcAsk([st EXCEPT !.kind = "C", !.n = nm, !.size = z], "wait", "C", nm, z) :
                     nm \in 1 .. MaxName, z \in Sizes})
      [] s.pc = "wait" ->
           IF AtEOF("sr") THEN {[D0 EXCEPT !.me = [s EXCEPT !.pc = "closing"]]}
           ELSE IF ~CanRead("sr") THEN {}
           ELSE LET r == Head(ch["sr"])
                    eat == [D0 EXCEPT !.eat = "sr"]
                IN  IF r.t = "fatal" THEN {[eat EXCEPT !.me = [s EXCEPT !.pc = "closing"]]}
                    ELSE IF r.t = "ok" /\ s.kind = "C"
                    THEN {[eat EXCEPT !.me = [s EXCEPT !.pc = "data", !.blk = 0]]}
                    ELSE IF r.t = "ok" /\ s.kind = "D"
                    THEN {[eat EXCEPT !.me = [s EXCEPT !.pc = "idle", !.open = Append(@, 0)]]}
                    ELSE IF r.t = "ok" /\ s.kind = "E"
                    THEN \* an accepted E outside any directory ends the sink
                         IF s.open = <<>> THEN {[eat EXCEPT !.me = [s EXCEPT !.pc = "closing"]]}
                         ELSE {[eat EXCEPT !.me = [s EXCEPT !.pc = "idle", !.open = Front(@)]]}
                    ELSE {[eat EXCEPT !.me = [s EXCEPT !.pc = "idle"]]}
      [] s.pc = "data" ->
           IF s.blk < s.size
           THEN {FQuit(s, "src"),
                 [D0 EXCEPT !.me = [s EXCEPT !.blk = s.blk + 1],
                            !.out = <<Out("sq", Tok("data", s.n, s.blk + 1, 0))>>]}
           ELSE {SrcAsk([s EXCEPT !.kind = "st"], "wait", "st", s.n, 1),
                 [SrcAsk([s EXCEPT !.kind = "st"], "wait", "st", s.n, 0) EXCEPT !.ref = {s.n}],
                 FQuit(s, "src")}
      [] s.pc = "closing" -> {[D0 EXCEPT !.me = [s EXCEPT !.pc = "done"], !.close = {"sq"}]}
      [] OTHER -> {}

-----------------------------------------------------------------------------
(* SINK, code: _SCPSink.run / _recv_files / _recv_dir / _recv_file *)

K0 == [pc |-> "start", stack |-> <<>>, cur |-> [path |-> <<>>, n |-> 0, size |-> 0,
       got |-> 0, lexc |-> FALSE], rep |-> {}, raised |-> 0, depth |-> 0, id |-> 0]
Frame(p, dn, dtm) == [path |-> p, tm |-> 0, dn |-> dn, dtm |-> dtm]

SnkErr(st, x, fatal) ==
    IF SnkServer \/ (cfg.handler /\ (~fatal \/ FatalIsWarn))
    THEN [st EXCEPT !.rep = IF SnkServer \/ ~RecordErrors THEN @ ELSE @ \cup {x}]
    ELSE [st EXCEPT !.pc = "closing", !.raised = x]

SetTop(st, tm) == [st EXCEPT !.stack[Len(st.stack)].tm = tm]

\* setstat of every directory still open (EOF: the nested loops return normally).
\* A setstat that fails here cannot be answered any more (the channel is closed):
\* the BrokenPipeError of the attempt leaves the enclosing loop as well, so the
\* directory above the failing one is not touched; the levels above that are.
RECURSIVE Unwind(_, _, _)
Unwind(f, stk, skip) ==
    IF Len(stk) <= 1 THEN f
    ELSE LET fr == Last(stk)
             fails == ~skip /\ cfg.pres /\ Ref(fr.dn) = "kstat"
             f2 == IF cfg.pres /\ ~skip /\ ~fails /\ fr.path \in DOMAIN f
                   THEN [f EXCEPT ![fr.path].perm = fr.dn,
                                  ![fr.path].tm = IF fr.dtm # 0 THEN fr.dtm ELSE @] ELSE f
         IN  Unwind(f2, Front(stk), fails)

\* A lost connection is not an SCP-level end of file: the reader raises an
\* exception that none of the handlers catches, everything is abandoned.
SnkGone == [D0 EXCEPT !.me = [k EXCEPT !.pc = "closing",
                                       !.raised = IF SnkServer THEN 0 ELSE CONN]]
SnkEOF(st) == IF cut THEN SnkGone
              ELSE [D0 EXCEPT !.me = [st EXCEPT !.pc = "closing"], !.fs = Unwind(fs, st.stack, FALSE)]
\* end of file in the middle of a file: 'Connection lost' (fatal), which the
\* server side swallows: its loops then end on the next read
SnkLost == IF cut THEN SnkGone
           ELSE IF SnkServer THEN SnkEOF(k)
           ELSE [D0 EXCEPT !.me = [k EXCEPT !.pc = "closing", !.raised = CONN]]

Reply(t, n, id) == Out(KOut, Tok(t, n, 0, id))

\* the item (file or directory) at path p of file system f, named n, with times
\* tm, is complete: set its attributes and give the final answer to request id.
\* remoteBad: the source's status was an error; localBad: a local write failed
Complete(st, f, p, n, tm, id, remoteBad, localBad) ==
    LET any == remoteBad \/ localBad
        statfail == ~any /\ cfg.pres /\ Ref(n) = "kstat"
        f2 == IF ~any /\ cfg.pres /\ ~statfail
              THEN \* setstat without times (no T record) leaves the times alone
                   [f EXCEPT ![p].perm = n, ![p].tm = IF tm # 0 THEN tm ELSE @] ELSE f
        first == IF StatBeforeReply
                 THEN <<Reply(IF localBad \/ statfail THEN "warn" ELSE "ok", n, id)>>
                 ELSE \* pinned tree: reply first, setstat afterwards; its failure
                      \* is one more warning on the response stream
                      <<Reply(IF localBad THEN "warn" ELSE "ok", n, id)>> \o
                      (IF statfail THEN <<Reply("warn", n, id)>> ELSE <<>>)
    IN  [me |-> IF any \/ statfail THEN SnkErr(st, n, FALSE) ELSE st,
         out |-> first, fs |-> f2, ref |-> IF statfail THEN {n} ELSE {}]

\* the file in st.cur is complete (data consumed, status consumed or skipped)
SnkFinish(st, f, remoteBad) ==
    LET cur == st.cur
        tm == Last(st.stack).tm
    IN  Complete(SetTop([st EXCEPT !.pc = "rec"], 0), f, cur.path, cur.n, tm, st.id,
                 remoteBad, cur.lexc)

SnkStart ==
    IF cfg.mustdir /\ ~IsDir(fs, <<>>)
    THEN LET e == SnkErr(k, DST, FALSE) IN
         {[D0 EXCEPT !.me = [e EXCEPT !.pc = "closing"], !.out = <<Reply("warn", DST, 0)>>,
                     !.ref = {DST}]}
    ELSE {[D0 EXCEPT !.me = [k EXCEPT !.pc = "rec", !.stack = <<Frame(<<>>, 0, 0)>>],
                     !.out = <<Reply("ok", 0, 0)>>]}

SnkRec ==
    IF AtEOF(KIn) THEN {SnkEOF(k)}
    ELSE IF ~CanRead(KIn) THEN {}
    ELSE
    LET tok == Head(ch[KIn])
        eat == [D0 EXCEPT !.eat = KIn]
        top == Last(k.stack)
        np == IF IsDir(fs, top.path) THEN Append(top.path, tok.n) ELSE top.path
        warn(x) == [eat EXCEPT !.me = SnkErr(SetTop(k, 0), x, FALSE),
                               !.out = <<Reply("warn", x, tok.id)>>, !.ref = {x}]
    IN
    CASE tok.t \in {"W", "F"} -> {[eat EXCEPT !.me = SnkErr(k, tok.n, tok.t = "F"),
                                              !.fat = tok.t = "F"]}
      [] tok.t = "T" -> {[eat EXCEPT !.me = SetTop(k, IF cfg.pres THEN tok.n ELSE 0),
                                     !.out = <<Reply("ok", 0, tok.id)>>]}
      [] tok.t = "E" ->
           IF Len(k.stack) = 1
           THEN {[eat EXCEPT !.me = [k EXCEPT !.pc = "closing"],
                             !.out = <<Reply("ok", 0, tok.id)>>]}
           ELSE LET st == [k EXCEPT !.stack = Front(k.stack)]
                    r == Complete(st, fs, top.path, top.dn, top.dtm, tok.id, FALSE, FALSE)
                IN  {[eat EXCEPT !.me = r.me, !.out = r.out, !.fs = r.fs, !.ref = r.ref]}
      [] tok.t = "C" ->
           IF Ref(tok.n) = "kcreate" \/ IsDir(fs, np) THEN {warn(tok.n)}
           ELSE LET cur == [path |-> np, n |-> tok.n, size |-> tok.z, got |-> 0,
                            lexc |-> FALSE]
                    st == [k EXCEPT !.cur = cur, !.id = tok.id,
                                    !.pc = IF tok.z = 0 THEN "stat" ELSE "data"]
                    \* open(..., 'wb'): an existing file is truncated and keeps its mode
                    f1 == IF np \in DOMAIN fs
                          THEN Put(fs, np, [fs[np] EXCEPT !.data = <<>>, !.tm = 0, !.sz = tok.z])
                          ELSE Create(fs, np, [FileEntry EXCEPT !.sz = tok.z])
                IN  IF tok.z = 0 /\ ~SinkReadsStatus
                    THEN LET r == SnkFinish(st, f1, FALSE) IN
                         {[eat EXCEPT !.me = r.me, !.out = <<Reply("ok", 0, tok.id)>> \o r.out,
                                      !.fs = r.fs, !.ref = r.ref]}
                    ELSE {[eat EXCEPT !.me = st, !.out = <<Reply("ok", 0, tok.id)>>,
                                      !.fs = f1]}
      [] tok.t = "D" ->
           IF ~cfg.rec THEN {warn(tok.n)}
           ELSE IF np \in DOMAIN fs /\ fs[np].kd # "d" THEN {warn(tok.n)}
           ELSE IF np \notin DOMAIN fs /\ Ref(tok.n) = "kcreate" THEN {warn(tok.n)}
           ELSE {[eat EXCEPT
                    !.me = [SetTop(k, 0) EXCEPT !.stack = Append(@, Frame(np, tok.n, top.tm))],
                    !.out = <<Reply("ok", 0, tok.id)>>,
                    !.fs = IF np \in DOMAIN fs THEN fs ELSE Create(fs, np, DirEntry)]}
      [] OTHER -> {[eat EXCEPT !.me = [k EXCEPT !.pc = "closing"], !.des = TRUE]}

SnkData ==
    IF AtEOF(KIn) THEN {SnkLost}
    ELSE IF ~CanRead(KIn) THEN {}
    ELSE
    LET tok == Head(ch[KIn])
        eat == [D0 EXCEPT !.eat = KIn]
        cur == k.cur
    IN  IF tok.t # "data"
        THEN {[eat EXCEPT !.me = [k EXCEPT !.pc = "closing"], !.des = TRUE]}
        ELSE LET fail == ~cur.lexc /\ Ref(cur.n) = "kwrite" /\ cur.got = 0
                 lex == cur.lexc \/ fail
                 f2 == IF lex THEN fs
                       ELSE [fs EXCEPT ![cur.path].data = Append(@, <<tok.n, tok.z>>)]
                 st == [k EXCEPT !.cur.got = cur.got + 1, !.cur.lexc = lex,
                                 !.pc = IF cur.got + 1 = cur.size THEN "stat" ELSE "data"]
             IN  IF cur.got + 1 = cur.size /\ ~SinkReadsStatus
                 THEN LET r == SnkFinish(st, f2, FALSE) IN
                      {[eat EXCEPT !.me = r.me, !.out = r.out, !.fs = r.fs,
                                   !.ref = r.ref \cup (IF fail THEN {cur.n} ELSE {})]}
                 ELSE {[eat EXCEPT !.me = st, !.fs = f2,
                                   !.ref = IF fail THEN {cur.n} ELSE {}]}

SnkStat ==
    IF AtEOF(KIn) THEN {SnkLost}
    ELSE IF ~CanRead(KIn) THEN {}
    ELSE
    LET tok == Head(ch[KIn])
        eat == [D0 EXCEPT !.eat = KIn]
    IN  IF tok.t # "st"
        THEN {[eat EXCEPT !.me = [k EXCEPT !.pc = "closing"], !.des = TRUE]}
        ELSE LET r == SnkFinish([k EXCEPT !.id = tok.id], fs, tok.z = 0) IN
             {[eat EXCEPT !.me = r.me, !.out = r.out, !.fs = r.fs, !.ref = r.ref]}

SnkCode ==
    CASE k.pc = "start" -> SnkStart
      [] k.pc = "rec" -> SnkRec
      [] k.pc = "data" -> SnkData
      [] k.pc = "stat" -> SnkStat
      [] k.pc = "closing" -> {[D0 EXCEPT !.me = [k EXCEPT !.pc = "done"], !.close = {KOut}]}
      [] OTHER -> {}

-----------------------------------------------------------------------------
(* SINK, free: any legal scp -t; a warning it issues refuses the item *)
SnkAnswers(st, tok, okpc) ==
    {[D0 EXCEPT !.eat = KIn, !.me = [st EXCEPT !.pc = okpc],
                !.out = <<Reply("ok", 0, tok.id)>>],
     [D0 EXCEPT !.eat = KIn, !.me = [st EXCEPT !.pc = "rec"],
                !.out = <<Reply("warn", tok.n, tok.id)>>, !.ref = {tok.n}],
     [D0 EXCEPT !.eat = KIn, !.me = [st EXCEPT !.pc = "closing"],
                !.out = <<Reply("fatal", tok.n, tok.id)>>, !.ref = {tok.n}],
     [FQuit(st, "snk") EXCEPT !.eat = KIn]}

SnkFree ==
    CASE k.pc = "start" ->
           {[D0 EXCEPT !.me = [k EXCEPT !.pc = "rec"], !.out = <<Reply("ok", 0, 0)>>],
            [D0 EXCEPT !.me = [k EXCEPT !.pc = "closing"], !.out = <<Reply("warn", DST, 0)>>,
                       !.ref = {DST}],
            [D0 EXCEPT !.me = [k EXCEPT !.pc = "closing"], !.out = <<Reply("fatal", DST, 0)>>,
                       !.ref = {DST}],
            FQuit(k, "snk")}
      [] k.pc = "rec" ->
           IF AtEOF(KIn) THEN {[D0 EXCEPT !.me = [k EXCEPT !.pc = "closing"]]}
           ELSE IF ~CanRead(KIn) THEN {}
           ELSE LET tok == Head(ch[KIn]) IN
                CASE tok.t = "W" -> {[D0 EXCEPT !.eat = KIn, !.me = k]}
                  [] tok.t = "F" -> {[D0 EXCEPT !.eat = KIn, !.me = [k EXCEPT !.pc = "closing"]]}
                  [] tok.t \in {"T", "D", "E"} -> SnkAnswers(k, tok, "rec")
                  [] tok.t = "C" ->
                       SnkAnswers([k EXCEPT !.cur.size = tok.z, !.cur.got = 0, !.cur.n = tok.n],
                                  tok, IF tok.z = 0 THEN "stat" ELSE "data")
                  [] OTHER -> {[D0 EXCEPT !.eat = KIn, !.me = [k EXCEPT !.pc = "closing"],
                                          !.des = TRUE]}
      [] k.pc = "data" ->
           IF AtEOF(KIn) THEN {[D0 EXCEPT !.me = [k EXCEPT !.pc = "closing"]]}
           ELSE IF ~CanRead(KIn) THEN {}
           ELSE LET tok == Head(ch[KIn]) IN
                IF tok.t # "data"
                THEN {[D0 EXCEPT !.eat = KIn, !.me = [k EXCEPT !.pc = "closing"], !.des = TRUE]}
                ELSE {[D0 EXCEPT !.eat = KIn,
                         !.me = [k EXCEPT !.cur.got = @ + 1,
                                   !.pc = IF k.cur.got + 1 = k.cur.size THEN "stat" ELSE "data"]],
                      [FQuit(k, "snk") EXCEPT !.eat = KIn]}
      [] k.pc = "stat" ->
           IF AtEOF(KIn) THEN {[D0 EXCEPT !.me = [k EXCEPT !.pc = "closing"]]}
           ELSE IF ~CanRead(KIn) THEN {}
           ELSE LET tok == Head(ch[KIn]) IN
                IF tok.t # "st"
                THEN {[D0 EXCEPT !.eat = KIn, !.me = [k EXCEPT !.pc = "closing"], !.des = TRUE]}
                ELSE SnkAnswers(k, tok, "rec")
      [] k.pc = "closing" -> {[D0 EXCEPT !.me = [k EXCEPT !.pc = "done"], !.close = {KOut}]}
      [] OTHER -> {}

-----------------------------------------------------------------------------
(* COPIER, code: _SCPCopier.run / _copy_files / _copy_file / _forward_response *)
C0 == [pc |-> IF R2R THEN "init" ELSE "done", kind |-> "", n |-> 0, size |-> 0, got |-> 0,
       depth |-> 0, sexc |-> FALSE, sfatal |-> FALSE, rep |-> {}, raised |-> 0]

CopErr(st, x, fatal, pc) ==
    IF cfg.handler /\ (~fatal \/ FatalIsWarn)
    THEN [st EXCEPT !.pc = pc, !.rep = IF RecordErrors THEN @ \cup {x} ELSE @]
    ELSE [st EXCEPT !.pc = "closing", !.raised = x]
CopLost == [D0 EXCEPT !.me = [c EXCEPT !.pc = "closing", !.raised = CONN]]

CopCode ==
    CASE c.pc = "init" ->      \* the sink's first response goes to the source
           IF AtEOF("kr") THEN {CopLost}
           ELSE IF ~CanRead("kr") THEN {}
           ELSE LET r == Head(ch["kr"])
                    fwd == [D0 EXCEPT !.eat = "kr", !.out = <<Out("sr", r)>>]
                IN  IF r.t \notin RespT
                    THEN {[fwd EXCEPT !.me = [c EXCEPT !.pc = "closing"], !.des = TRUE]}
                    ELSE IF r.t = "ok" THEN {[fwd EXCEPT !.me = [c EXCEPT !.pc = "rec"]]}
                    ELSE {[fwd EXCEPT !.me = CopErr(c, r.n, r.t = "fatal", "rec")]}
      [] c.pc = "rec" ->
           IF AtEOF("sq") THEN {[D0 EXCEPT !.me = [c EXCEPT !.pc = "closing"]]}
           ELSE IF ~CanRead("sq") THEN {}
           ELSE LET tok == Head(ch["sq"])
                    fwd == [D0 EXCEPT !.eat = "sq", !.out = <<Out("kq", tok)>>]
                IN  IF tok.t \in {"W", "F"}
                    THEN {[fwd EXCEPT !.me = CopErr(c, tok.n, tok.t = "F", "rec")]}
                    ELSE IF tok.t \in {"T", "C", "D", "E"}
                    THEN {[fwd EXCEPT !.me = [c EXCEPT !.pc = "resp", !.kind = tok.t,
                                                       !.n = tok.n, !.size = tok.z, !.got = 0]]}
                    ELSE \* data or a status where a request line is expected
                         {[fwd EXCEPT !.me = [c EXCEPT !.pc = "closing"], !.des = TRUE]}
      [] c.pc = "resp" ->
           IF AtEOF("kr") THEN {CopLost}
           ELSE IF ~CanRead("kr") THEN {}
           ELSE LET r == Head(ch["kr"])
                    fwd == [D0 EXCEPT !.eat = "kr", !.out = <<Out("sr", r)>>]
                IN  IF r.t \notin RespT
                    THEN {[fwd EXCEPT !.me = [c EXCEPT !.pc = "closing"], !.des = TRUE]}
                    ELSE IF r.t # "ok"
                    THEN {[fwd EXCEPT !.me = CopErr(c, r.n, r.t = "fatal", "rec")]}
                    ELSE CASE c.kind = "C" ->
                                {[fwd EXCEPT !.me = [c EXCEPT !.pc = IF c.size = 0 THEN "st_fwd"
                                                                     ELSE "data"]]}
                           [] c.kind = "D" ->
                                {[fwd EXCEPT !.me = [c EXCEPT !.pc = "rec", !.depth = @ + 1]]}
                           [] c.kind = "E" ->
                                IF c.depth = 0
                                THEN {[fwd EXCEPT !.me = [c EXCEPT !.pc = "closing"]]}
                                ELSE {[fwd EXCEPT !.me = [c EXCEPT !.pc = "rec", !.depth = @ - 1]]}
                           [] OTHER -> {[fwd EXCEPT !.me = [c EXCEPT !.pc = "rec"]]}
      [] c.pc = "data" ->
           IF AtEOF("sq") THEN {CopLost}
           ELSE IF ~CanRead("sq") THEN {}
           ELSE LET tok == Head(ch["sq"])
                    fwd == [D0 EXCEPT !.eat = "sq", !.out = <<Out("kq", tok)>>]
                IN  IF tok.t # "data"
                    THEN {[fwd EXCEPT !.me = [c EXCEPT !.pc = "closing"], !.des = TRUE]}
                    ELSE {[fwd EXCEPT !.me = [c EXCEPT !.got = @ + 1,
                              !.pc = IF c.got + 1 = c.size THEN "st_fwd" ELSE "data"]]}
      [] c.pc = "st_fwd" ->    \* _forward_response(source, sink)
           IF AtEOF("sq") THEN {CopLost}
           ELSE IF ~CanRead("sq") THEN {}
           ELSE LET tok == Head(ch["sq"])
                    fwd == [D0 EXCEPT !.eat = "sq", !.out = <<Out("kq", tok)>>]
                IN  IF tok.t # "st"
                    THEN {[fwd EXCEPT !.me = [c EXCEPT !.pc = "closing"], !.des = TRUE]}
                    ELSE {[fwd EXCEPT !.me = [c EXCEPT !.pc = "fin_fwd", !.sexc = tok.z = 0]]}
      [] c.pc = "fin_fwd" ->   \* _forward_response(sink, source)
           IF AtEOF("kr") THEN {CopLost}
           ELSE IF ~CanRead("kr") THEN {}
           ELSE LET r == Head(ch["kr"])
                    fwd == [D0 EXCEPT !.eat = "kr",
                                      !.out = <<Out(IF CopierRightSide THEN "sr" ELSE "kq", r)>>]
                IN  IF r.t \notin RespT
                    THEN {[fwd EXCEPT !.me = [c EXCEPT !.pc = "closing"], !.des = TRUE]}
                    ELSE IF r.t # "ok"
                    THEN {[fwd EXCEPT !.me = CopErr(c, r.n, r.t = "fatal", "rec")]}
                    ELSE IF c.sexc THEN {[fwd EXCEPT !.me = CopErr(c, c.n, FALSE, "rec")]}
                    ELSE {[fwd EXCEPT !.me = [c EXCEPT !.pc = "rec"]]}
      [] c.pc = "closing" ->
           {[D0 EXCEPT !.me = [c EXCEPT !.pc = "done"], !.close = {"sr", "kq"}]}
      [] OTHER -> {}

-----------------------------------------------------------------------------
Apply(d, who) ==
    /\ ch' = [x \in Chans |->
                LET base == IF x = d.eat THEN Tail(ch[x]) ELSE ch[x]
                    add == SelectSeq(d.out, LAMBDA e : e.to = x)
                IN  IF cut THEN <<>> ELSE base \o [i \in 1 .. Len(add) |-> add[i].tok]]
    /\ closed' = [x \in Chans |-> closed[x] \/ x \in d.close]
    /\ desync' = (desync \/ d.des)
    /\ quit' = (quit \/ d.quit)
    /\ refused' = refused \cup d.ref
    /\ fatalSeen' = (fatalSeen \/ d.fat)
    /\ fs' = d.fs
    /\ nid' = IF d.useid THEN nid + 1 ELSE nid
    /\ log' = IF KeepLog
              THEN log \o [i \in 1 .. Len(d.out) |-> <<who, d.out[i].to, d.out[i].tok>>]
              ELSE log
    /\ UNCHANGED <<cfg, cut>>

\* a free peer that stops closes its channel in the same step, and says so in the
\* log (the harness closes the channel exactly there)
Bye(D, who, chan) ==
    {IF d.me.pc # "closing" THEN d
     ELSE [d EXCEPT !.me.pc = "done", !.close = {chan},
                    !.out = IF \E i \in 1 .. Len(d.out) : d.out[i].to = "quit" THEN @
                            ELSE Append(@, Out("quit", Tok(who, 0, 0, 0)))] : d \in D}

SrcStep == \E d \in (IF SrcRole = "code" THEN SrcCode ELSE Bye(SrcFree, "src", "sq")) :
              /\ s' = d.me /\ UNCHANGED <<k, c>> /\ Apply(d, "src")
SnkStep == \E d \in (IF SnkRole = "code" THEN SnkCode ELSE Bye(SnkFree, "snk", KOut)) :
              /\ k' = d.me /\ UNCHANGED <<s, c>> /\ Apply(d, "snk")
CopStep == /\ R2R
           /\ \E d \in CopCode : /\ c' = d.me /\ UNCHANGED <<s, k>> /\ Apply(d, "cop")

AllDone == s.pc = "done" /\ k.pc = "done" /\ c.pc = "done"

CodeCanStep == \/ SrcRole = "code" /\ SrcCode # {}
               \/ SnkRole = "code" /\ SnkCode # {}
               \/ R2R /\ CopCode # {}

Cut == /\ AllowCut # "no" /\ ~cut /\ ~AllDone
       /\ AllowCut = "quiet" => ~CodeCanStep
       /\ cut' = TRUE
       /\ ch' = [x \in Chans |-> <<>>]
       /\ closed' = [x \in Chans |-> TRUE]
       /\ log' = IF KeepLog THEN Append(log, <<"env", "cut", Tok("cut", 0, 0, 0)>>) ELSE log
       /\ UNCHANGED <<cfg, quit, desync, refused, fatalSeen, s, k, c, fs, nid>>

Finished == AllDone /\ UNCHANGED vars

InitFs(d) == CASE d = "dir" -> (<<>> :> DirEntry)
               [] d = "file" -> (<<>> :> OldFile)
               [] OTHER -> [p \in {} |-> DirEntry]

Init ==
    /\ \E b \in Cfgs :
         \E r \in [NamesOf(b.tree) -> RefKinds \cup {"none"}] :
            /\ RefOk(b.tree, b.pres, r)
            /\ cfg = [tree |-> b.tree, rec |-> b.rec, pres |-> b.pres, mustdir |-> b.mustdir,
                      handler |-> b.handler, dst |-> b.dst, ref |-> r]
    /\ ch = [x \in Chans |-> <<>>]
    /\ closed = [x \in Chans |-> FALSE]
    /\ cut = FALSE /\ quit = FALSE /\ desync = FALSE /\ refused = {} /\ fatalSeen = FALSE
    /\ s = S0 /\ k = K0 /\ c = C0
    /\ fs = InitFs(cfg.dst)
    /\ nid = 1
    /\ log = <<>>

Next == SrcStep \/ SnkStep \/ CopStep \/ Cut \/ Finished

Spec == Init /\ [][Next]_vars
FairSpec == Spec /\ WF_vars(SrcStep) /\ WF_vars(SnkStep) /\ WF_vars(CopStep)
\* for -simulate: a behaviour stops when everybody is done
SimSpec == Init /\ [][SrcStep \/ SnkStep \/ CopStep \/ Cut]_vars

-----------------------------------------------------------------------------
(* Properties *)
BothCode == SrcRole = "code" /\ SnkRole = "code"

\* the party that called asyncssh.scp() (or 0-record when it is a free peer)
ClientIsCode ==
    IF R2R THEN TRUE
    ELSE (SrcRole = "code" /\ ~SrcServer) \/ (SnkRole = "code" /\ ~SnkServer)
Client == IF R2R THEN c
          ELSE IF SrcRole = "code" /\ ~SrcServer THEN s ELSE k

Tops == {n \in 1 .. N : cfg.tree[n].par = 0}
RECURSIVE Chain(_)
Chain(n) == IF cfg.tree[n].par = 0 THEN <<n>> ELSE Append(Chain(cfg.tree[n].par), n)
\* where node n is expected at the destination
ExpPath(n) == IF cfg.dst = "dir" THEN Chain(n) ELSE Tail(Chain(n))

WellFormed == Cardinality(Tops) = 1 \/ cfg.dst = "dir"

Arrived(n) ==
    LET p == ExpPath(n)
        nd == cfg.tree[n]
    IN  /\ p \in DOMAIN fs
        /\ fs[p].kd = nd.kd
        /\ nd.kd = "f" => fs[p].data = [i \in 1 .. nd.size |-> <<n, i>>]
        /\ fs[p].perm = (IF cfg.pres THEN n ELSE 0)
        /\ fs[p].tm = (IF cfg.pres THEN n ELSE 0)

ExpectedPaths == {ExpPath(n) : n \in 1 .. N} \cup (IF cfg.dst = "dir" THEN {<<>>} ELSE {})

(* with no refusal and no cut the destination tree equals the source tree *)
TreeReproduced ==
    (AllDone /\ BothCode /\ ~cut /\ refused = {} /\ WellFormed) =>
        /\ \A n \in 1 .. N : Arrived(n)
        /\ DOMAIN fs = ExpectedPaths

(* every refused item is reported to the caller; what is not refused arrives *)
Reported == Client.rep \cup (IF Client.raised = 0 THEN {} ELSE {Client.raised})
RefusalsReported ==
    (AllDone /\ ClientIsCode /\ ~cut /\ ~quit) =>
        /\ Client.raised \notin {CONN, CRASH}
        /\ IF Client.raised = 0 THEN refused \subseteq Client.rep
           ELSE Client.raised \in refused
        /\ Reported \subseteq refused           \* nothing is reported without a cause
        \* error_handler semantics: a warning never ends a transfer that has a handler
        /\ (BothCode /\ cfg.handler) => Client.raised = 0
        /\ (BothCode /\ WellFormed /\ Client.raised = 0 /\ DST \notin refused) =>
              \A n \in 1 .. N :
                 (n \notin refused /\ AncOf(cfg.tree, n) \cap refused = {}) => Arrived(n)

NoDesync == ~desync

(* a fatal error from the peer ends the transfer with an exception, handler or not *)
FatalRaised == (AllDone /\ ClientIsCode /\ ~R2R /\ fatalSeen) => Client.raised # 0

(* remote-to-remote: responses travel towards the source, requests towards the sink *)
ForwardedRight ==
    R2R => /\ \A i \in 1 .. Len(ch["sr"]) : ch["sr"][i].t \in RespT
           /\ \A i \in 1 .. Len(ch["kq"]) : ch["kq"][i].t \in ReqT

Terminates == <>[]AllDone

Final == [cfg |-> cfg, fs |-> fs, cut |-> cut, quit |-> quit, fatal |-> fatalSeen, refused |-> refused, desync |-> desync,
          srep |-> s.rep, sraised |-> s.raised, krep |-> k.rep, kraised |-> k.raised,
          crep |-> c.rep, craised |-> c.raised]
EmitScript == AllDone => PrintT(ToString(<<"SCRIPT", log, Final>>))

\* vacuity witnesses (must be reported violated = reachable)
NeverNested == Len(k.stack) < 3
NeverAbort == ~(AllDone /\ ~cut /\ Client.raised # 0)
NeverHandled == ~(AllDone /\ Client.rep # {})
=============================================================================
