------------------------------ MODULE Process ------------------------------
(***************************************************************************)
(* I/O redirection of SSHProcess (asyncssh/process.py).                    *)
(*                                                                         *)
(* Two halves, each a real SSHProcess in the replay, joined when a stream  *)
(* of the first is redirected into the second (process-to-process pipe):   *)
(*                                                                         *)
(*   E --wEB--> [B: channel -> writers] --> targets | C                    *)
(*     <--wBE--                                                            *)
(*   sources | B --> [C: readers -> channel] --wCK--> K                    *)
(*                                            <--wKC--                     *)
(*                                                                         *)
(* E is a polite emitter (writes only while its send window is open, may   *)
(* place EOF / exit status / CLOSE anywhere), K a consumer that takes what *)
(* arrives.  The four wires are delivered by the environment, a prefix at  *)
(* a time, so "slow consumer" = late delivery on wCK / wKC, "fast          *)
(* producer" = Emit / Feed whenever enabled.                               *)
(*                                                                         *)
(* Unit = one chunk (all chunks have the same length; windows, water marks *)
(* and buffer limits are counted in chunks).  An item is <<tag, n>>: the   *)
(* n-th chunk of the stream tag ("x" / "y" of the emitter, "s1".. of the   *)
(* sources).                                                               *)
(*                                                                         *)
(* Every operator below named after a method is the transliteration of     *)
(* that critical section of process.py / stream.py / channel.py; an action *)
(* is one external event followed by everything the event loop does until  *)
(* it is idle (run-to-completion; woken tasks in FIFO order).              *)
(*                                                                         *)
(* Fix* = TRUE is the repaired rule (fixes/x03_*.patch), FALSE the code as *)
(* it is in the pinned tree; the other flags are deliberately wrong        *)
(* variants for sensitivity runs.                                          *)
(***************************************************************************)
EXTENDS Naturals, Sequences, FiniteSets, TLC

CONSTANTS
    HasB, HasC,     \* which halves exist
    InDT,           \* data types arriving at B: subset of {"x", "y"}
    OutDT,          \* data types C can send: subset of {"x", "y"}
    MaxN,           \* chunks per emitter stream / per fed source
    W1,             \* B's receive window = its stream buffer limit
    W2,             \* K's receive window
    CH, CL,         \* C's channel write buffer high / low water
    QH, QL,         \* queue high / low water of an asynchronous writer
    TKinds,         \* target kinds offered: "stream" "file" "null" "merge" "proc" "none"
    SKinds,         \* source kinds offered: "stream" "file" "null" "proc" "none"
    RESet, SESet,   \* values of recv_eof / send_eof offered
    FileLens,       \* lengths (chunks) of file sources
    Allows,         \* allowances the environment may set on a stream target
    MaxRedirB, MaxRedirC, MaxAllowOps, MaxCollect,
    WithWait, WithExit, WithBClose, WithKClose, WithCClose, WithDrain,
    StaleFeed,      \* the environment also feeds replaced stream sources
    OneAtATime,     \* wires are delivered one packet at a time only
    FixCW,          \* clear_writer: forget the writer, then resume feeding
    FixCR,          \* a closed asynchronous writer never resumes feeding
    FixRC,          \* closing a stream reader cancels its feed task
    FixSF,          \* at most one feed task per stream reader
    FixLE,          \* feed_recv_buf forwards EOF only if recv_eof
    FixDC,          \* drain waiters are released when the channel closes
    FixRO,          \* resume_writing stops resuming when paused again
    FixLO,          \* linking from the reader's side sets the reader first
    DropOnRedirect, EofAlways, ResumeNoFlush, NoPause, ExitEarly,
    MinEmit,        \* the emitter ends its output only after this many chunks
    PrintAt         \* 0: no history; else print the behaviour at this length

DT2 == {"x", "y"}
INF == 9
SENT == <<"z", 0>>
Range(f) == {f[i] : i \in DOMAIN f}
Min(a, b) == IF a < b THEN a ELSE b
STag(s) == <<"s1", "s2", "s3", "s4", "s5", "s6">>[s]
Seq1(n) == [i \in 1..n |-> i]

VARIABLES st, hist
vars == <<st, hist>>

NewTarget(kind, dt, re, cdt) ==
    [kind |-> kind, dt |-> dt, re |-> re, cdt |-> cdt, q |-> <<>>, got |-> <<>>,
     eofs |-> 0, allow |-> INF, busy |-> FALSE, wp |-> FALSE, closed |-> FALSE,
     fin |-> FALSE, over |-> 0, wac |-> FALSE]

NewSource(kind, dt, buf, eof, bdt) ==
    [kind |-> kind, dt |-> dt, buf |-> buf, eof |-> eof, n |-> Len(buf),
     paused |-> FALSE, task |-> "none", closed |-> FALSE, bdt |-> bdt, stale |-> FALSE]

Init0 ==
    [eN |-> [d \in DT2 |-> 0], eWin |-> W1, eSt |-> "open", eExit |-> "none",
     wEB |-> <<>>, wBE |-> <<>>,
     bRw |-> W1, bPark |-> <<>>, bRst |-> "open", bRp |-> FALSE, bSst |-> "open",
     bExit |-> "none", bRbuf |-> [d \in DT2 |-> <<>>], bLimit |-> W1, bRdP |-> FALSE,
     bPws |-> {}, bW |-> [d \in DT2 |-> 0], bRE |-> [d \in DT2 |-> TRUE],
     bEof |-> FALSE, bLost |-> FALSE, bApp |-> [d \in DT2 |-> <<>>],
     bWait |-> "none", bWaitX |-> "none", bCln |-> <<>>,
     tg |-> <<>>,
     cBuf |-> <<>>, cWin |-> W2, cSst |-> "open", cWp |-> FALSE,
     cR |-> [d \in DT2 |-> 0], cSE |-> [d \in DT2 |-> TRUE], cOrd |-> <<>>,
     cLost |-> FALSE, cDrain |-> [d \in DT2 |-> "no"], src |-> <<>>,
     wCK |-> <<>>, wKC |-> <<>>,
     kRw |-> W2, kGot |-> <<>>, kEof |-> 0, kSst |-> "open",
     \* transient (empty whenever the loop is idle)
     rdy |-> <<>>, cur |-> 0,
     \* ghosts
     drop |-> {}, bad |-> {}, trig |-> {}, eofDue |-> FALSE,
     nrb |-> 0, nrc |-> 0, nal |-> 0, ncol |-> 0]

Bad(S, what) == [S EXCEPT !.bad = @ \cup {what}]
Trig(S, what) == [S EXCEPT !.trig = @ \cup {what}]

-----------------------------------------------------------------------------
(* B: SSHStreamSession / SSHProcess on the receiving side *)

RbufLen(S) == Len(S.bRbuf["x"]) + Len(S.bRbuf["y"])
\* SSHProcess._should_pause_reading
ShouldPause(S) == S.bPws # {} \/ (S.bLimit > 0 /\ RbufLen(S) >= S.bLimit)

\* SSHProcess._should_block_drain
ShouldBlockDrain(S, dt) == S.cR[dt] # 0 \/ (S.cWp /\ ~S.cLost)
\* SSHStreamSession._unblock_drain
UnblockDrain(S, dt) ==
    IF ~ShouldBlockDrain(S, dt) /\ S.cDrain[dt] = "wait" /\ <<"dr", dt>> \notin Range(S.rdy)
    THEN [S EXCEPT !.rdy = Append(@, <<"dr", dt>>)] ELSE S

RECURSIVE BSessData(_, _, _), TWrite(_, _, _), BPauseFeeding(_, _), BResumeFeeding(_, _),
          BMaybeResume(_), BFlushRecv(_), BDeliverData(_, _), BEofReceived(_),
          TWriteEof(_, _), TClose(_, _), BClearWriter(_, _), WriteAll(_, _, _),
          CChanWrite(_, _, _), CFlush(_), CPauseResume(_), CPauseAll(_, _),
          CResumeAll(_, _), SrcPause(_, _), SrcResume(_, _), FileFeed(_, _),
          CFeedEof(_, _), CWriteEof(_), SrcClose(_, _), CClearReader(_, _),
          SrcTask(_, _, _), TaskStep(_, _), RunReady(_), KProcAll(_, _), CProcAll(_, _),
          BProcAll(_, _), EProcAll(_, _)

\* SSHStreamSession._maybe_pause_reading
BMaybePause(S) ==
    IF ~S.bRdP /\ ShouldPause(S) THEN [S EXCEPT !.bRdP = TRUE, !.bRp = TRUE] ELSE S

\* SSHProcess.pause_feeding
BPauseFeeding(S, dt) == BMaybePause([S EXCEPT !.bPws = @ \cup {dt}])

\* SSHProcess.resume_feeding (set.remove: KeyError when absent)
BResumeFeeding(S, dt) ==
    IF dt \notin S.bPws THEN Bad(S, "keyerror")
    ELSE BMaybeResume([S EXCEPT !.bPws = @ \ {dt}])

\* SSHStreamSession._maybe_resume_reading + SSHChannel.resume_reading
BMaybeResume(S) ==
    IF S.bRdP /\ ~ShouldPause(S)
    THEN IF ResumeNoFlush THEN [S EXCEPT !.bRdP = FALSE]
         ELSE IF S.bRp THEN BFlushRecv([S EXCEPT !.bRdP = FALSE, !.bRp = FALSE])
         ELSE [S EXCEPT !.bRdP = FALSE]
    ELSE S

\* SSHChannel._flush_recv_buf
BFlushRecv(S) ==
    IF S.bPark # <<>> /\ ~S.bRp
    THEN BFlushRecv(BDeliverData([S EXCEPT !.bPark = Tail(@)], Head(S.bPark)))
    ELSE IF S.bPark # <<>> THEN S
    ELSE LET S1 == IF S.bRst = "eofp" THEN BEofReceived([S EXCEPT !.bRst = "eof"]) ELSE S
         IN IF S1.bPark = <<>> /\ S1.bRst = "closep"
            THEN [S1 EXCEPT !.bRst = "closed", !.rdy = Append(@, <<"bcln", 0>>)]
            ELSE S1

\* SSHChannel._deliver_data
BDeliverData(S, it) ==
    LET rw == S.bRw - 1
        S1 == IF 2 * rw < W1 /\ S.bSst # "closed"
              THEN [S EXCEPT !.bRw = W1, !.wBE = Append(@, <<"adj", W1 - rw>>)]
              ELSE IF 2 * rw < W1 THEN [S EXCEPT !.bRw = W1]
              ELSE [S EXCEPT !.bRw = rw]
    IN BSessData(S1, it[1], it)

\* SSHProcess.data_received
BSessData(S, dt, it) ==
    IF S.bW[dt] # 0 THEN TWrite(S, S.bW[dt], it)
    ELSE BMaybePause([S EXCEPT !.bRbuf[dt] = Append(@, it)])

\* writer.write of the writer classes
TWrite(S, t, it) ==
    LET T == S.tg[t] IN
    CASE T.kind = "stream" ->
           LET q1 == Append(T.q, it)
               pause == ~T.wp /\ Len(q1) >= QH /\ ~NoPause
               wake == T.q = <<>> /\ ~T.busy /\ ~T.fin /\ S.cur # t /\
                       <<"t", t>> \notin Range(S.rdy)
               S1 == [S EXCEPT !.tg[t].q = q1, !.tg[t].wac = @ \/ T.closed,
                               !.tg[t].wp = @ \/ pause,
                               !.rdy = IF wake THEN Append(@, <<"t", t>>) ELSE @]
           IN IF pause THEN BPauseFeeding(S1, T.dt) ELSE S1
      [] T.kind \in {"file", "null"} ->
           [S EXCEPT !.tg[t].got = Append(@, it), !.tg[t].wac = @ \/ T.closed]
      [] T.kind = "merge" -> BSessData(S, "x", it)
      [] T.kind = "proc" -> CChanWrite(S, T.cdt, it)
      [] OTHER -> S

WriteAll(S, t, items) ==
    IF items = <<>> THEN S ELSE WriteAll(TWrite(S, t, Head(items)), t, Tail(items))

\* SSHProcess.eof_received (the writers, then SSHStreamSession.eof_received)
BEofReceived(S) ==
    LET S1 == IF S.bW["x"] # 0 /\ (S.bRE["x"] \/ EofAlways)
              THEN TWriteEof(S, S.bW["x"]) ELSE S
        S2 == IF S1.bW["y"] # 0 /\ (S1.bRE["y"] \/ EofAlways)
              THEN TWriteEof(S1, S1.bW["y"]) ELSE S1
    IN [S2 EXCEPT !.bEof = TRUE]

\* writer.write_eof
TWriteEof(S, t) ==
    LET T == S.tg[t] IN
    CASE T.kind \in {"stream", "file"} -> TClose(S, t)
      [] T.kind = "proc" -> CFeedEof(S, T.cdt)
      [] OTHER -> S

\* writer.close
TClose(S, t) ==
    LET T == S.tg[t] IN
    CASE T.kind = "stream" ->
           IF T.closed THEN S
           ELSE LET wake == T.q = <<>> /\ ~T.busy /\ ~T.fin /\ S.cur # t /\
                            <<"t", t>> \notin Range(S.rdy)
                IN [S EXCEPT !.tg[t].closed = TRUE, !.tg[t].q = Append(@, SENT),
                             !.bCln = Append(@, t),
                             !.trig = IF T.wp THEN @ \cup {"close_paused_writer"} ELSE @,
                             !.rdy = IF wake THEN Append(@, <<"t", t>>) ELSE @]
      [] T.kind = "file" ->
           IF T.re /\ ~T.closed
           THEN [S EXCEPT !.tg[t].closed = TRUE, !.tg[t].eofs = @ + 1] ELSE S
      [] T.kind = "proc" -> CClearReader(S, T.cdt)
      [] OTHER -> S

\* SSHProcess.clear_writer
BClearWriter(S, dt) ==
    IF FixCW
    THEN LET S1 == [S EXCEPT !.bW[dt] = 0,
                             !.trig = IF dt \in S.bPws /\ S.bRp
                                      THEN @ \cup {"close_paused_writer"} ELSE @]
         IN IF dt \in S.bPws THEN BResumeFeeding(S1, dt) ELSE S1
    ELSE LET S1 == IF dt \in S.bPws THEN BResumeFeeding(S, dt) ELSE S
         IN [S1 EXCEPT !.bW[dt] = 0]

\* SSHProcess.set_writer
BSetWriter(S, dt, tnew, re) ==
    LET old == S.bW[dt]
        S1 == IF old # 0 THEN BClearWriter(TClose(S, old), dt) ELSE S
    IN IF tnew # 0 THEN [S1 EXCEPT !.bW[dt] = tnew, !.bRE[dt] = re] ELSE S1

\* SSHProcess.feed_recv_buf
BFeedRecvBuf(S, dt, t) ==
    LET buf == S.bRbuf[dt]
        S0 == [S EXCEPT !.bRbuf[dt] = <<>>]
        S1 == IF DropOnRedirect THEN S0 ELSE WriteAll(S0, t, buf)
        late == S1.bEof /\ ~S1.bRE[dt]
        S2 == IF S1.bEof /\ (S1.bRE[dt] \/ ~FixLE)
              THEN TWriteEof(IF late /\ S1.tg[t].kind = "proc" THEN Bad(S1, "late_eof")
                             ELSE S1, t)
              ELSE IF late THEN Trig(S1, "late_eof") ELSE S1
    IN BMaybeResume(S2)

\* SSHChannel._cleanup -> SSHProcess.connection_lost
BCleanup(S) ==
    LET S1 == [S EXCEPT !.bLost = TRUE]
        S2 == IF ~S1.bEof THEN BEofReceived(S1) ELSE S1
        S3 == IF S2.bW["x"] # 0 THEN TClose(S2, S2.bW["x"]) ELSE S2
        S4 == IF S3.bW["y"] # 0 THEN TClose(S3, S3.bW["y"]) ELSE S3
    IN [S4 EXCEPT !.bW = [d \in DT2 |-> 0]]

\* _StreamWriter._feed: runs until the queue is empty or drain() blocks
\* after "await drain()": task_done, the resume check, the next item
AfterWrite(S, t) ==
    LET T == S.tg[t] IN
    IF T.wp /\ Len(T.q) < QL /\ (~FixCR \/ ~T.closed)
    THEN [BResumeFeeding(S, T.dt) EXCEPT !.tg[t].wp = FALSE]
    ELSE S

TaskStep(S, t) ==
    LET T == S.tg[t] IN
    IF T.busy \/ T.fin \/ T.q = <<>> THEN [S EXCEPT !.cur = 0]
    ELSE LET it == Head(T.q) IN
         IF it = SENT
         THEN [S EXCEPT !.tg[t].q = Tail(@), !.tg[t].fin = TRUE, !.cur = 0,
                        !.tg[t].eofs = IF T.re THEN @ + 1 ELSE @]
         ELSE LET al == IF T.allow \in 1..8 THEN T.allow - 1 ELSE T.allow
                  S1 == [S EXCEPT !.cur = t, !.tg[t].q = Tail(@),
                                  !.tg[t].got = Append(@, it), !.tg[t].allow = al,
                                  !.tg[t].over = IF T.allow = 0 THEN @ + 1 ELSE @,
                                  !.tg[t].wac = @ \/ T.eofs > 0]
              IN IF al = 0 THEN [S1 EXCEPT !.tg[t].busy = TRUE, !.cur = 0]
                 ELSE TaskStep(AfterWrite(S1, t), t)

\* the transport lets drain() return
TaskUnblock(S, t) ==
    TaskStep(AfterWrite([S EXCEPT !.tg[t].busy = FALSE, !.cur = t], t), t)

-----------------------------------------------------------------------------
(* C: SSHProcess on the sending side, its channel, the sources *)

\* SSHChannel.write
CChanWrite(S, cdt, it) ==
    IF S.cSst # "open" THEN Bad(S, "write_after_eof")
    ELSE CFlush([S EXCEPT !.cBuf = Append(@, <<cdt, it[1], it[2]>>)])

\* SSHChannel._close_send
CCloseSend(S) ==
    [S EXCEPT !.drop = @ \cup {<<b[2], b[3]>> : b \in Range(S.cBuf)}, !.cBuf = <<>>,
              !.wCK = IF S.cSst # "closed" THEN Append(@, <<"close">>) ELSE @,
              !.cSst = "closed"]

\* SSHChannel._flush_send_buf
CFlush(S) ==
    LET k == Min(Len(S.cBuf), S.cWin)
        S1 == [S EXCEPT !.wCK = @ \o [i \in 1..k |-> <<"d">> \o S.cBuf[i]],
                        !.cBuf = SubSeq(@, k + 1, Len(@)), !.cWin = @ - k]
        S2 == CPauseResume(S1)
    IN IF S2.cBuf = <<>>
       THEN IF S2.cSst = "eofp" THEN [S2 EXCEPT !.wCK = Append(@, <<"eof">>), !.cSst = "eof"]
            ELSE IF S2.cSst = "closep" THEN CCloseSend(S2) ELSE S2
       ELSE S2

\* SSHChannel._pause_resume_writing -> SSHProcess.pause_writing / resume_writing
CPauseResume(S) ==
    IF S.cLost THEN S
    ELSE IF S.cWp
    THEN IF Len(S.cBuf) <= CL
         THEN LET S1 == [S EXCEPT !.cWp = FALSE]
                  S2 == UnblockDrain(UnblockDrain(S1, "x"), "y")
              IN CResumeAll(S2, S2.cOrd)
         ELSE S
    ELSE IF Len(S.cBuf) > CH THEN CPauseAll([S EXCEPT !.cWp = TRUE], S.cOrd) ELSE S

CPauseAll(S, ord) ==
    IF ord = <<>> THEN S
    ELSE CPauseAll(IF S.cR[Head(ord)] # 0 THEN SrcPause(S, S.cR[Head(ord)]) ELSE S, Tail(ord))

\* the loop of resume_writing runs over a snapshot of the readers
CResumeAll(S, ord) ==
    IF ord = <<>> THEN S
    ELSE LET s == S.cR[Head(ord)] IN
         IF s = 0 THEN CResumeAll(S, Tail(ord))
         ELSE IF S.cWp
         THEN IF FixRO THEN Trig(S, "resume_while_paused")
              ELSE CResumeAll(SrcResume(Bad(S, "resume_while_paused"), s), Tail(ord))
         ELSE CResumeAll(SrcResume(S, s), Tail(ord))

\* reader.pause_reading
SrcPause(S, s) ==
    LET R == S.src[s] IN
    IF R.kind = "proc" THEN BPauseFeeding(S, R.bdt)
    ELSE [S EXCEPT !.src[s].paused = TRUE]

\* reader.resume_reading
SrcResume(S, s) ==
    LET R == S.src[s] IN
    CASE R.kind = "proc" -> BResumeFeeding(S, R.bdt)
      [] R.kind = "file" -> FileFeed([S EXCEPT !.src[s].paused = FALSE], s)
      [] R.kind = "stream" ->
           LET S1 == [S EXCEPT !.src[s].paused = FALSE] IN
           IF R.task = "none"
           THEN [S1 EXCEPT !.src[s].task = "start", !.rdy = Append(@, <<"s", s>>)]
           ELSE IF R.task = "reading"
           THEN IF FixSF THEN Trig(S1, "double_feed") ELSE Bad(S1, "double_feed")
           ELSE S1
      [] OTHER -> S

\* _FileReader.feed
FileFeed(S, s) ==
    LET R == S.src[s] IN
    IF R.paused \/ R.closed THEN S
    ELSE IF R.buf # <<>>
    THEN FileFeed(CChanWrite([S EXCEPT !.src[s].buf = Tail(@)], R.dt,
                             <<STag(s), Head(R.buf)>>), s)
    ELSE CFeedEof(S, R.dt)

\* SSHChannel.write_eof
CWriteEof(S) == IF S.cSst = "open" THEN CFlush([S EXCEPT !.cSst = "eofp"]) ELSE S

\* SSHProcess.feed_eof
CFeedEof(S, dt) ==
    LET S1 == IF S.cSE[dt] \/ EofAlways
              THEN CWriteEof([S EXCEPT !.eofDue = @ \/ (S.cSE[dt] /\ S.cSst = "open")]) ELSE S
        S2 == IF S1.cR[dt] # 0 THEN SrcClose(S1, S1.cR[dt]) ELSE Bad(S1, "keyerror")
    IN IF S2.cR[dt] # 0 THEN CClearReader(S2, dt) ELSE S2

\* reader.close
SrcClose(S, s) ==
    LET R == S.src[s] IN
    CASE R.kind = "proc" -> BClearWriter([S EXCEPT !.src[s].closed = TRUE], R.bdt)
      [] R.kind = "stream" ->
           IF FixRC
           THEN [S EXCEPT !.src[s].closed = TRUE, !.src[s].task = "none",
                          !.rdy = SelectSeq(@, LAMBDA e : e # <<"s", s>>),
                          !.src[s].stale = R.task = "reading" /\ ~R.eof]
           ELSE [S EXCEPT !.src[s].closed = TRUE]
      [] OTHER -> [S EXCEPT !.src[s].closed = TRUE]

\* SSHProcess.clear_reader
CClearReader(S, dt) ==
    IF S.cR[dt] = 0 THEN Bad(S, "keyerror")
    ELSE UnblockDrain([S EXCEPT !.cR[dt] = 0,
                                !.cOrd = SelectSeq(@, LAMBDA d : d # dt)], dt)

\* SSHProcess.set_reader
CSetReader(S, dt, snew, se) ==
    LET old == S.cR[dt]
        S1 == IF old # 0 THEN SrcClose(S, old) ELSE S
    IN IF snew # 0
       THEN LET S2 == [S1 EXCEPT !.cR[dt] = snew, !.cSE[dt] = se,
                                 !.cOrd = IF dt \in Range(@) THEN @ ELSE Append(@, dt)]
            IN IF S2.cWp THEN SrcPause(S2, snew) ELSE S2
       ELSE IF old # 0 /\ S1.cR[dt] # 0 THEN CClearReader(S1, dt) ELSE S1

\* _StreamReader._feed; woke: the pending read() has just returned
SrcTask(S, s, woke) ==
    LET R == S.src[s] IN
    IF R.closed /\ FixRC THEN [S EXCEPT !.src[s].task = "none"]
    ELSE IF R.closed
    THEN \* as coded: a replaced reader goes on feeding / ends the new one
         Bad([S EXCEPT !.src[s].task = "none"], "stale_reader")
    ELSE IF ~woke /\ R.paused THEN [S EXCEPT !.src[s].task = "none"]
    ELSE IF R.buf # <<>>
    THEN SrcTask(CChanWrite([S EXCEPT !.src[s].buf = Tail(@)], R.dt,
                            <<STag(s), Head(R.buf)>>), s, FALSE)
    ELSE IF R.eof THEN CFeedEof([S EXCEPT !.src[s].task = "none"], R.dt)
    ELSE [S EXCEPT !.src[s].task = "reading"]

\* SSHChannel._cleanup -> SSHProcess.connection_lost on C
CCleanup(S) ==
    LET S1 == [S EXCEPT !.cLost = TRUE]
        S2 == UnblockDrain(UnblockDrain(S1, "x"), "y")
        ord == S2.cOrd
        S3 == IF Len(ord) >= 1 /\ S2.cR[ord[1]] # 0 THEN SrcClose(S2, S2.cR[ord[1]]) ELSE S2
        S4 == IF Len(ord) >= 2 /\ S3.cR[ord[2]] # 0 THEN SrcClose(S3, S3.cR[ord[2]]) ELSE S3
        hung == \E d \in DT2 : S4.cDrain[d] = "wait" /\ <<"dr", d>> \notin Range(S4.rdy)
        S5 == [S4 EXCEPT !.cR = [d \in DT2 |-> 0], !.cOrd = <<>>]
    IN IF FixDC THEN UnblockDrain(UnblockDrain(IF hung THEN Trig(S5, "drain_close") ELSE S5, "x"), "y")
       ELSE S5

-----------------------------------------------------------------------------
(* the event loop: woken tasks and call_soon callbacks in FIFO order *)

\* drain(): the woken waiter looks again
DrainWoken(S, d) ==
    IF S.cDrain[d] # "wait" \/ ShouldBlockDrain(S, d) THEN S
    ELSE [S EXCEPT !.cDrain[d] = IF S.cLost /\ S.cWp THEN "exc" ELSE "ret"]

RunReady(S) ==
    IF S.rdy = <<>> THEN S
    ELSE LET h == Head(S.rdy)
             S1 == [S EXCEPT !.rdy = Tail(@)]
         IN RunReady(
              CASE h[1] = "t" -> TaskStep(S1, h[2])
                [] h[1] = "u" -> TaskUnblock(S1, h[2])
                [] h[1] = "s" -> SrcTask(S1, h[2], S1.src[h[2]].task = "reading")
                [] h[1] = "bcln" -> BCleanup(S1)
                [] h[1] = "ccln" -> CCleanup(S1)
                [] h[1] = "dr" -> DrainWoken(S1, h[2])
                [] OTHER -> S1)

Joined(T) == T.fin /\ T.q = <<>>

\* wait() / communicate(): channel closed, then the cleanup tasks in order
WaitCheck(S) ==
    IF S.bWait = "pending" /\ S.bLost /\
       (ExitEarly \/ \A i \in DOMAIN S.bCln : Joined(S.tg[S.bCln[i]]))
    THEN [S EXCEPT !.bWait = "done", !.bWaitX = S.bExit,
                   !.bApp = [d \in DT2 |-> S.bApp[d] \o S.bRbuf[d]],
                   !.bRbuf = [d \in DT2 |-> <<>>]]
    ELSE S

Settle(S) == WaitCheck(RunReady(S))

-----------------------------------------------------------------------------
(* packets *)

\* SSHChannel._process_data / _eof / _close / exit-status on B
BProc(S, p) ==
    CASE p[1] = "d" ->
           LET it == <<p[2], p[3]>> IN
           IF S.bSst # "open" THEN [S EXCEPT !.drop = @ \cup {it}]
           ELSE IF S.bRp THEN [S EXCEPT !.bPark = Append(@, it)]
           ELSE BDeliverData(S, it)
      [] p[1] = "eof" -> BFlushRecv([S EXCEPT !.bRst = "eofp"])
      [] p[1] = "exit" -> [S EXCEPT !.bExit = p[2]]
      [] p[1] = "close" ->
           BFlushRecv([S EXCEPT !.wBE = IF S.bSst # "closed" THEN Append(@, <<"close">>) ELSE @,
                                !.bSst = "closed", !.bRst = "closep"])
      [] OTHER -> S
BProcAll(S, ps) == IF ps = <<>> THEN S ELSE BProcAll(BProc(S, Head(ps)), Tail(ps))

EProc(S, p) ==
    CASE p[1] = "adj" -> [S EXCEPT !.eWin = @ + p[2]]
      [] p[1] = "close" ->
           [S EXCEPT !.wEB = IF S.eSt # "closed" THEN Append(@, <<"close">>) ELSE @,
                     !.eSt = "closed"]
      [] OTHER -> S
EProcAll(S, ps) == IF ps = <<>> THEN S ELSE EProcAll(EProc(S, Head(ps)), Tail(ps))

KProc(S, p) ==
    CASE p[1] = "d" ->
           IF S.kSst = "closed" THEN [S EXCEPT !.drop = @ \cup {<<p[3], p[4]>>}]
           ELSE LET rw == S.kRw - 1 IN
                IF 2 * rw < W2
                THEN [S EXCEPT !.kGot = Append(@, <<p[2], p[3], p[4]>>), !.kRw = W2,
                               !.wKC = Append(@, <<"adj", W2 - rw>>)]
                ELSE [S EXCEPT !.kGot = Append(@, <<p[2], p[3], p[4]>>), !.kRw = rw]
      [] p[1] = "eof" -> [S EXCEPT !.kEof = @ + 1]
      [] p[1] = "close" ->
           [S EXCEPT !.wKC = IF S.kSst # "closed" THEN Append(@, <<"close">>) ELSE @,
                     !.kSst = "closed"]
      [] OTHER -> S
KProcAll(S, ps) == IF ps = <<>> THEN S ELSE KProcAll(KProc(S, Head(ps)), Tail(ps))

CProc(S, p) ==
    CASE p[1] = "adj" -> CFlush([S EXCEPT !.cWin = @ + p[2]])
      [] p[1] = "close" -> [CCloseSend(S) EXCEPT !.rdy = Append(@, <<"ccln", 0>>)]
      [] OTHER -> S
CProcAll(S, ps) == IF ps = <<>> THEN S ELSE CProcAll(CProc(S, Head(ps)), Tail(ps))

-----------------------------------------------------------------------------
(* actions: one external event, then the loop runs until idle *)

Chunk(d, n) == <<d, n>>
Name(it) == <<it[1], it[2]>>

\* the emitter writes one chunk / EOF / exit status / CLOSE
Emit(d) ==
    /\ HasB /\ d \in InDT /\ st.eSt = "open" /\ st.eWin > 0 /\ st.eN[d] < MaxN
    /\ LET n == st.eN[d] + 1 IN
       st' = [st EXCEPT !.eN[d] = n, !.eWin = @ - 1, !.wEB = Append(@, <<"d", d, n>>)]
Emitted == st.eN["x"] + st.eN["y"]
EmitEof ==
    /\ HasB /\ st.eSt = "open" /\ Emitted >= MinEmit
    /\ st' = [st EXCEPT !.eSt = "eof", !.wEB = Append(@, <<"eof">>)]
EmitExit(x) ==
    /\ HasB /\ WithExit /\ st.eSt \in {"open", "eof"} /\ st.eExit = "none"
    /\ st' = [st EXCEPT !.eExit = x, !.wEB = Append(@, <<"exit", x>>)]
EmitClose ==
    /\ HasB /\ st.eSt \in {"open", "eof"} /\ Emitted >= MinEmit
    /\ st' = [st EXCEPT !.eSt = "closed", !.wEB = Append(@, <<"close">>)]

Ks(n) == IF OneAtATime THEN {1} ELSE {1, n}

Cut(q, k) == SubSeq(q, k + 1, Len(q))
DeliverEB(k) == /\ HasB /\ st.wEB # <<>> /\ k \in Ks(Len(st.wEB))
                /\ st' = Settle(BProcAll([st EXCEPT !.wEB = Cut(@, k)], SubSeq(st.wEB, 1, k)))
DeliverBE(k) == /\ HasB /\ st.wBE # <<>> /\ k \in Ks(Len(st.wBE))
                /\ st' = Settle(EProcAll([st EXCEPT !.wBE = Cut(@, k)], SubSeq(st.wBE, 1, k)))
DeliverCK(k) == /\ HasC /\ st.wCK # <<>> /\ k \in Ks(Len(st.wCK))
                /\ st' = Settle(KProcAll([st EXCEPT !.wCK = Cut(@, k)], SubSeq(st.wCK, 1, k)))
\* (a CLOSE of the consumer is never delivered in one segment with what precedes
\* it: a stream reader resumed by a window adjustment of that segment would
\* write to the closed channel from its task - observed, not modelled)
DeliverKC(k) == /\ HasC /\ st.wKC # <<>> /\ k \in Ks(Len(st.wKC))
                /\ k > 1 => \A i \in 1..k : st.wKC[i][1] # "close"
                /\ st' = Settle(CProcAll([st EXCEPT !.wKC = Cut(@, k)], SubSeq(st.wKC, 1, k)))

\* the link B.d -> C.cd, made from either side
\* via "w": B.redirect(stdout=C.stdin): C.set_reader, B.set_writer, feed_recv_buf
\* via "r": C.redirect(stdin=B.stdout): B.set_writer, C.set_reader, feed_recv_buf
Link(S, d, cd, re, se, via) ==
    LET t == Len(S.tg) + 1
        s == Len(S.src) + 1
        S0 == [S EXCEPT !.tg = Append(@, NewTarget("proc", d, re, cd)),
                        !.src = Append(@, NewSource("proc", cd, <<>>, FALSE, d))]
        relink == via = "r" /\ S.cR[cd] # 0 /\ S.src[S.cR[cd]].kind = "proc"
        S00 == IF relink THEN Trig(S0, "link_order") ELSE S0
        S1 == IF via = "w" \/ FixLO THEN BSetWriter(CSetReader(S00, cd, s, se), d, t, re)
              ELSE CSetReader(BSetWriter(S00, d, t, re), cd, s, se)
    IN BFeedRecvBuf(S1, d, t)

\* EOF on one stream of a channel ends all of them: the application does not
\* ask for EOF forwarding while another stream of C is still being fed
EofSafe(cd, se) == \A o \in DT2 \ {cd} : st.cR[o] # 0 => ~se /\ ~st.cSE[o]

\* B.redirect(stdout / stderr = target, recv_eof = re)
RedirectB(d, kind, re, cd, se, via) ==
    /\ HasB /\ d \in InDT /\ kind \in TKinds /\ st.nrb < MaxRedirB /\ ~st.bLost
    \* (merging stderr into a stdout writer that EOF has already closed loses
    \* what stderr had buffered - observed, not modelled)
    /\ kind = "merge" => d = "y" /\ ~st.bEof
    /\ kind = "none" => st.bW[d] # 0
    /\ kind = "proc" => HasC /\ cd \in OutDT /\ ~st.cLost /\ st.cSst = "open" /\ EofSafe(cd, se)
    \* (moving a stream of B from one stream of C to another one while C is
    \* write-paused ends in a KeyError of resume_feeding - observed, not modelled)
    /\ kind = "proc" /\ st.bW[d] # 0 /\ st.tg[st.bW[d]].kind = "proc" => st.tg[st.bW[d]].cdt = cd
    /\ kind # "proc" => cd = "x" /\ se /\ via = "w"
    /\ LET S0 == [st EXCEPT !.nrb = @ + 1] IN
       st' = Settle(
         CASE kind = "none" -> BSetWriter(S0, d, 0, re)
           [] kind = "proc" -> Link(S0, d, cd, re, se, via)
           [] OTHER -> LET t == Len(S0.tg) + 1
                           S1 == [S0 EXCEPT !.tg = Append(@, NewTarget(kind, d, re, "x"))]
                       IN BFeedRecvBuf(BSetWriter(S1, d, t, re), d, t))

\* C.redirect(stdin = source, send_eof = se)
RedirectC(cd, kind, se, n) ==
    /\ HasC /\ cd \in OutDT /\ kind \in SKinds \ {"proc"} /\ st.nrc < MaxRedirC
    /\ ~st.cLost /\ st.cSst = "open"
    /\ kind = "none" => st.cR[cd] # 0
    /\ kind # "none" => EofSafe(cd, se \/ kind = "null")
    /\ kind = "file" => n \in FileLens
    /\ kind # "file" => n = 0
    /\ LET S0 == [st EXCEPT !.nrc = @ + 1]
           s == Len(S0.src) + 1
       IN st' = Settle(
         CASE kind = "none" -> CSetReader(S0, cd, 0, se)
           [] kind = "null" -> CSetReader(CWriteEof([S0 EXCEPT !.eofDue = TRUE]), cd, 0, se)
           [] kind = "file" ->
                LET S1 == [S0 EXCEPT !.src = Append(@, NewSource("file", cd, Seq1(n), TRUE, "x"))]
                IN FileFeed(CSetReader(S1, cd, s, se), s)
           [] kind = "stream" ->
                LET S1 == [S0 EXCEPT !.src = Append(@, NewSource("stream", cd, <<>>, FALSE, "x"))]
                    S2 == CSetReader(S1, cd, s, se)
                IN [S2 EXCEPT !.src[s].task = "start", !.rdy = Append(@, <<"s", s>>)]
           [] OTHER -> S0)

\* data / EOF arrives at a stream source
Feed(s) ==
    /\ HasC /\ s \in DOMAIN st.src /\ st.src[s].kind = "stream" /\ ~st.src[s].eof
    /\ st.src[s].n < MaxN
    /\ StaleFeed \/ ~st.src[s].closed
    /\ LET R == st.src[s]
           S1 == [st EXCEPT !.src[s].buf = Append(@, R.n + 1), !.src[s].n = @ + 1,
                            !.trig = IF R.stale THEN @ \cup {"stale_reader"} ELSE @,
                            !.rdy = IF R.task = "reading" THEN Append(@, <<"s", s>>) ELSE @]
       IN st' = Settle(S1)
FeedEof(s) ==
    /\ HasC /\ s \in DOMAIN st.src /\ st.src[s].kind = "stream" /\ ~st.src[s].eof
    /\ StaleFeed \/ ~st.src[s].closed
    /\ LET R == st.src[s]
           S1 == [st EXCEPT !.src[s].eof = TRUE,
                            !.trig = IF R.stale THEN @ \cup {"stale_reader"} ELSE @,
                            !.rdy = IF R.task = "reading" THEN Append(@, <<"s", s>>) ELSE @]
       IN st' = Settle(S1)

\* the environment changes how many writes a stream target accepts
SetAllow(t, k) ==
    /\ HasB /\ t \in DOMAIN st.tg /\ st.tg[t].kind = "stream" /\ k \in Allows
    /\ k # st.tg[t].allow /\ st.nal < MaxAllowOps
    /\ LET T == st.tg[t]
           S1 == [st EXCEPT !.tg[t].allow = k, !.nal = @ + 1,
                            !.tg[t].over = IF k = 0 THEN @ ELSE 0]
           S2 == IF T.busy /\ k > 0
                 THEN [S1 EXCEPT !.rdy = Append(@, <<"u", t>>)]
                 ELSE S1
       IN st' = Settle(S2)

\* collect_output()
CollectOne(S, d) ==
    BMaybeResume([S EXCEPT !.bApp[d] = @ \o S.bRbuf[d], !.bRbuf[d] = <<>>])
Collect ==
    /\ HasB /\ st.ncol < MaxCollect /\ st.bWait = "none"
    /\ \E d \in DT2 : st.bRbuf[d] # <<>>
    /\ st' = Settle(CollectOne(CollectOne([st EXCEPT !.ncol = @ + 1], "x"), "y"))

\* wait(): communicate() lifts the buffer limit, then waits for the close
Wait ==
    /\ HasB /\ WithWait /\ st.bWait = "none"
    /\ st' = Settle(BMaybeResume([st EXCEPT !.bWait = "pending", !.bLimit = 0]))

\* B.close(): SSHChannel.close
BClose ==
    /\ HasB /\ WithBClose /\ st.bSst = "open" /\ Emitted >= MinEmit
    /\ LET S1 == [st EXCEPT !.bSst = "closed", !.wBE = Append(@, <<"close">>),
                            !.drop = @ \cup Range(st.bPark), !.bPark = <<>>, !.bRp = FALSE]
       IN st' = Settle(IF S1.bRst = "closep"
                       THEN [S1 EXCEPT !.bRst = "closed", !.rdy = Append(@, <<"bcln", 0>>)]
                       ELSE S1)

\* the consumer closes its channel
KClose ==
    /\ HasC /\ WithKClose /\ st.kSst = "open"
    /\ st' = [st EXCEPT !.kSst = "closed", !.wKC = Append(@, <<"close">>)]

\* C.close() (only offered while nothing is being fed into it)
CClose ==
    /\ HasC /\ WithCClose /\ st.cSst \in {"open", "eof"} /\ \A d \in DT2 : st.cR[d] = 0
    /\ st' = Settle(CFlush([st EXCEPT !.cSst = "closep"]))

\* the application calls C.stdin.drain()
Drain(d) ==
    /\ HasC /\ WithDrain /\ d \in OutDT /\ st.cDrain[d] = "no"
    /\ st' = [st EXCEPT !.cDrain[d] =
                IF ShouldBlockDrain(st, d) THEN "wait"
                ELSE IF st.cLost /\ st.cWp THEN "exc" ELSE "ret"]

-----------------------------------------------------------------------------
(* what the harness compares after every step (tuples only) *)
B2(f) == <<f["x"], f["y"]>>
PT(T) == <<T.kind, Len(T.q), T.got, T.eofs, T.busy, T.wp, T.closed, T.fin>>
PS(S, s) == LET R == S.src[s] IN
            <<R.kind, Len(R.buf), R.paused, R.task, \A d \in DT2 : S.cR[d] # s>>
Proj(S) ==
    << <<S.eWin, S.wEB, S.wBE>>,
       <<S.bRw, S.bPark, S.bRst, S.bRp, S.bSst, S.bExit, B2(S.bRbuf), S.bRdP,
         <<"x" \in S.bPws, "y" \in S.bPws>>, B2(S.bW), S.bEof, S.bLost,
         B2(S.bApp), S.bWait, S.bWaitX>>,
       [t \in DOMAIN S.tg |-> PT(S.tg[t])],
       <<S.cBuf, S.cWin, S.cSst, S.cWp, B2(S.cR), S.cOrd, S.cLost, B2(S.cDrain)>>,
       [s \in DOMAIN S.src |-> PS(S, s)],
       <<S.wCK, S.wKC, S.kRw, S.kGot, S.kEof, S.kSst>>,
       <<"close_paused_writer" \in S.trig, "stale_reader" \in S.trig,
         "double_feed" \in S.trig, "late_eof" \in S.trig, "drain_close" \in S.trig,
         "resume_while_paused" \in S.trig, "link_order" \in S.trig>> >>

Lab(l) == IF PrintAt > 0 THEN Append(hist, <<l, Proj(st')>>) ELSE hist

Terminal ==
    /\ HasB => st.bLost /\ st.wEB = <<>> /\ st.wBE = <<>> /\
               \A t \in DOMAIN st.tg : st.tg[t].allow = INF
    /\ HasC => (HasB \/ st.cLost) /\ st.wCK = <<>> /\ st.wKC = <<>>
Stop == PrintAt > 0 /\ (Terminal \/ Len(hist) >= PrintAt)

Init == st = Init0 /\ hist = <<>>

Next ==
  /\ ~Stop
  /\ st.bad = {}
  /\ \/ \E d \in DT2 : Emit(d) /\ hist' = Lab(<<"emit", d>>)
     \/ EmitEof /\ hist' = Lab(<<"emiteof">>)
     \/ \E x \in {"status", "signal"} : EmitExit(x) /\ hist' = Lab(<<"emitexit", x>>)
     \/ EmitClose /\ hist' = Lab(<<"emitclose">>)
     \/ \E k \in 1..(2 * MaxN + 6) :
           \/ DeliverEB(k) /\ hist' = Lab(<<"deliver", "EB", k>>)
           \/ DeliverBE(k) /\ hist' = Lab(<<"deliver", "BE", k>>)
           \/ DeliverCK(k) /\ hist' = Lab(<<"deliver", "CK", k>>)
           \/ DeliverKC(k) /\ hist' = Lab(<<"deliver", "KC", k>>)
     \/ \E d \in DT2, kind \in TKinds, re \in RESet, cd \in DT2, se \in SESet \cup {TRUE},
           via \in {"w", "r"} :
           RedirectB(d, kind, re, cd, se, via) /\
           hist' = Lab(<<"redirb", d, kind, re, cd, se, via>>)
     \/ \E cd \in DT2, kind \in SKinds, se \in SESet, n \in FileLens \cup {0} :
           RedirectC(cd, kind, se, n) /\ hist' = Lab(<<"redirc", cd, kind, se, n>>)
     \/ \E s \in 1..6 : Feed(s) /\ hist' = Lab(<<"feed", s>>)
     \/ \E s \in 1..6 : FeedEof(s) /\ hist' = Lab(<<"feedeof", s>>)
     \/ \E t \in 1..6, k \in Allows : SetAllow(t, k) /\ hist' = Lab(<<"allow", t, k>>)
     \/ Collect /\ hist' = Lab(<<"collect">>)
     \/ Wait /\ hist' = Lab(<<"wait">>)
     \/ BClose /\ hist' = Lab(<<"bclose">>)
     \/ KClose /\ hist' = Lab(<<"kclose">>)
     \/ CClose /\ hist' = Lab(<<"cclose">>)
     \/ \E d \in DT2 : Drain(d) /\ hist' = Lab(<<"drain", d>>)

Spec == Init /\ [][Next]_vars
view == st

-----------------------------------------------------------------------------
(* Properties *)

Data(q) == SelectSeq(q, LAMBDA p : p[1] = "d")
\* <<tag, n>> of a packet / buffer entry (its last two components)
Nm(p) == <<p[Len(p) - 1], p[Len(p)]>>
Nms(q) == [i \in DOMAIN q |-> Nm(q[i])]
Of(q, tag) == LET f == SelectSeq(q, LAMBDA it : it[1] = tag) IN [i \in DOMAIN f |-> f[i][2]]
Increasing(ns) == \A i \in 1..(Len(ns) - 1) : ns[i] < ns[i + 1]
Contig(ns) == \A i \in 1..(Len(ns) - 1) : ns[i + 1] = ns[i] + 1
NoSent(q) == SelectSeq(q, LAMBDA it : it # SENT)

RECURSIVE Flat(_)
Flat(ss) == IF ss = <<>> THEN <<>> ELSE Head(ss) \o Flat(Tail(ss))

\* every place a chunk can be, downstream places first
PlacesB(S) ==
    <<S.bApp["x"], S.bApp["y"]>> \o
    [t \in DOMAIN S.tg |-> S.tg[t].got] \o [t \in DOMAIN S.tg |-> NoSent(S.tg[t].q)] \o
    <<S.bRbuf["x"], S.bRbuf["y"], S.bPark, Nms(Data(S.wEB))>>
PlacesC(S) == <<Nms(S.kGot), Nms(Data(S.wCK)), Nms(S.cBuf)>>
SrcBuf(S, s) == [i \in DOMAIN S.src[s].buf |-> <<STag(s), S.src[s].buf[i]>>]
Places(S) == PlacesC(S) \o PlacesB(S) \o [s \in DOMAIN S.src |-> SrcBuf(S, s)]
Tags(S) == InDT \cup {STag(s) : s \in DOMAIN S.src}
Produced(S, tag) == IF tag \in DT2 THEN S.eN[tag]
                    ELSE S.src[CHOOSE s \in DOMAIN S.src : STag(s) = tag].n

\* each chunk is in exactly one place (or was discarded by a close) and every
\* buffer holds the chunks of a stream in the order they were produced
ExactlyOnce ==
    LET all == Flat(Places(st)) IN
    \A tag \in Tags(st) :
      LET ns == Of(all, tag) IN
      /\ Cardinality(Range(ns)) = Len(ns)
      /\ \A n \in 1..Produced(st, tag) : n \in Range(ns) \/ <<tag, n>> \in st.drop
      /\ \A i \in DOMAIN Places(st) : Increasing(Of(Places(st)[i], tag))

\* what a target has is a gap-free run of each stream routed to it; what the
\* consumer has from a source is a prefix of what the source produced
TargetRuns ==
    /\ \A t \in DOMAIN st.tg : \A tag \in Tags(st) : Contig(Of(st.tg[t].got, tag))
    /\ \A tag \in Tags(st) :
         LET ns == Of(Nms(st.kGot), tag) IN
         /\ Contig(ns)
         /\ tag \notin DT2 /\ st.kSst = "open" => ns = Seq1(Len(ns))

NoBad == st.bad = {}
NoWriteAfterEof == \A t \in DOMAIN st.tg : ~st.tg[t].wac

Quiet(S) == /\ S.wEB = <<>> /\ S.wBE = <<>> /\ S.wCK = <<>> /\ S.wKC = <<>>
            /\ \A t \in DOMAIN S.tg : S.tg[t].allow = INF

\* EOF reaches a target / the consumer at most once and only when asked for
EofRule ==
    /\ \A t \in DOMAIN st.tg : st.tg[t].eofs <= 1 /\ (st.tg[t].eofs = 1 => st.tg[t].re)
    /\ st.kEof <= 1 /\ (st.kEof = 1 => st.eofDue)
EofComplete ==
    Quiet(st) =>
      /\ st.bLost => \A t \in DOMAIN st.tg :
            st.tg[t].kind \in {"stream", "file"} /\ st.tg[t].re => st.tg[t].eofs = 1
      /\ \A t \in DOMAIN st.tg :
            st.tg[t].kind = "stream" /\ st.tg[t].closed /\ st.tg[t].re => st.tg[t].eofs = 1
      /\ st.eofDue /\ ~st.cLost /\ st.kSst = "open" /\ st.cSst # "closed" => st.kEof = 1

\* when nothing is in flight and no target is blocked nothing is stuck
AttachedSrc(S) == {S.cR[d] : d \in DT2} \ {0}
NoStuck ==
    Quiet(st) =>
      /\ \A t \in DOMAIN st.tg : st.tg[t].kind = "stream" => st.tg[t].q = <<>> /\ ~st.tg[t].busy
      /\ st.bPark # <<>> => st.bLimit > 0 /\ RbufLen(st) >= st.bLimit
      /\ st.kSst = "open" /\ ~st.cLost => st.cBuf = <<>> /\ ~st.cWp
      /\ st.kSst = "open" /\ ~st.cLost =>
           \A s \in AttachedSrc(st) : st.src[s].kind \in {"stream", "file"} =>
                                      st.src[s].buf = <<>> /\ ~st.src[s].paused

\* back pressure: bounded buffers while the buffer limit is in force, a
\* blocked target sees at most the write that was under way
Bounded ==
    /\ \A t \in DOMAIN st.tg : st.tg[t].over <= 1
    /\ st.bLimit > 0 =>
         /\ Len(st.bPark) <= W1 /\ RbufLen(st) <= W1
         /\ \A t \in DOMAIN st.tg : Len(NoSent(st.tg[t].q)) <= QH + W1
         /\ Len(st.cBuf) <= CH + Cardinality(OutDT) + W1
    /\ HasC /\ ~HasB => Len(st.cBuf) <= CH + Cardinality(OutDT)

\* wait() returns (with or without an exit status) only when every chunk the
\* emitter wrote is with the application, a target or the next process
FinalB(S) == Range(S.bApp["x"]) \cup Range(S.bApp["y"]) \cup S.drop \cup
             UNION {Range(S.tg[t].got) : t \in DOMAIN S.tg} \cup
             Range(Nms(S.kGot)) \cup Range(Nms(Data(S.wCK))) \cup Range(Nms(S.cBuf))
ExitAfterOutput ==
    st.bWait = "done" =>
      /\ \A d \in InDT : \A n \in 1..st.eN[d] : <<d, n>> \in FinalB(st)
      /\ st.bWaitX = st.eExit

\* every waiter is released by the close
WaitersResolve ==
    /\ st.bLost /\ st.bWait = "pending" => \E t \in DOMAIN st.tg : st.tg[t].allow # INF
    /\ st.cLost => \A d \in DT2 : st.cDrain[d] # "wait"

TransientEmpty == st.rdy = <<>> /\ st.cur = 0

\* vacuity witnesses (each must be reported violated = reachable)
NeverPausedWriter == \A t \in DOMAIN st.tg : ~st.tg[t].wp
NeverParked == st.bPark = <<>>
NeverWritePaused == ~st.cWp
NeverWaitDone == ~(st.bWait = "done" /\ st.bWaitX # "none" /\ st.eN["x"] > 1)
NeverPiped == ~(\E i \in DOMAIN st.kGot : st.kGot[i][2] \in DT2)
NeverDrainRet == \A d \in DT2 : st.cDrain[d] \notin {"ret", "exc"}
NeverTrig == st.trig = {}

\* one line per behaviour: the labels with the state after each step
PrintCase == Stop => PrintT(ToString(<<"CASE", hist>>))
=============================================================================
