------------------------------- MODULE Editor -------------------------------
(***************************************************************************)
(* The server-side input line editor of asyncssh (asyncssh/editor.py:     *)
(* SSHLineEditor, SSHLineEditorChannel, SSHLineEditorSession).             *)
(*                                                                         *)
(* A USER types keys; a key is a sequence of BYTES (control bytes, the     *)
(* bytes of an escape sequence, the bytes of a UTF-8 character).  The      *)
(* bytes reach the server in CHUNKS: a chunk boundary (Cut) may fall       *)
(* between any two bytes, also inside an escape sequence or inside a       *)
(* multi-byte character.  The channel's decoder turns bytes into           *)
(* characters, the editor's key map (a trie) turns characters into key     *)
(* actions or inserts them into the input line.  The APPLICATION calls the *)
(* channel API (set_echo, set_line_mode, write, set_input, register_key,   *)
(* ...) between two chunks - or from inside a callback (a completed line,  *)
(* a break, a soft EOF, a signal) while the rest of the chunk (typed-ahead *)
(* input) is still to be processed.                                        *)
(*                                                                         *)
(* The whole editor is ONE record `ed`, the semantics one function         *)
(* Feed(state, byte): the ghost `sh` is the same function applied to the   *)
(* same bytes and calls but never told about chunk boundaries - chunk      *)
(* independence is `Core(ed) = Core(sh)`.                                   *)
(*                                                                         *)
(* A character is <<class, id, hidden>>: class "n" (narrow, one byte),     *)
(* "m" (narrow, two bytes), "w" (two columns wide, three bytes), or the    *)
(* printable byte itself; id numbers the typed characters when UniqueIds   *)
(* (replay: the driver gives every typed character its own glyph);         *)
(* hidden = 1 when typed while echo was off.  What the user's screen shows *)
(* is tty (everything committed: prompts, output, echoed lines) followed   *)
(* by pshow (a completed line still shown, line_echo = FALSE) and, when    *)
(* echo is on, by line with the cursor on line[cur+1]; the driver lays     *)
(* this out on a terminal of the current width and compares it with what a *)
(* terminal emulator makes of the bytes the real editor sent.              *)
(***************************************************************************)
EXTENDS Naturals, Sequences, FiniteSets, TLC

CONSTANTS
    MaxKeys,        \* keys typed in a behaviour
    MaxApi,         \* API calls in a behaviour
    MaxLine,        \* no typing / yanking beyond this length (state bound)
    MaxCuts,        \* chunk boundaries in a behaviour
    HistSize,       \* line_history
    MaxLen,         \* max_line_length (0: none)
    LineEcho,       \* line_echo
    KeySet,         \* keys the user may type (names, see TypeSeq)
    ApiSet,         \* API calls the application may make (names, see Api)
    W1, W2,         \* terminal widths (Resize toggles between them)
    UniqueIds,      \* number the typed characters (replay) or not (exhaustive)
    KeepLog,
    \* ---- the rules; TRUE is the design value ----
    KeepPend,       \* a partial escape sequence survives a chunk boundary
    KeepDec,        \* a partial UTF-8 character survives a chunk boundary
    ScrubKill,      \* text killed while echo was off cannot be yanked once
                    \*   echo is on again (FALSE: rule of the pinned tree)
    HistSkipsHidden,\* lines completed while echo is off are not remembered
    SwitchAtOnce,   \* set_line_mode(FALSE) from a callback: the rest of the
                    \*   chunk is passed on raw (FALSE: pinned tree - the
                    \*   editor keeps editing until the chunk ends)
    HandoverClears, \* the input handed over at set_line_mode(FALSE) leaves the
                    \*   editor
    HandoverResets, \* ... and the cursor goes back to 0 with it (FALSE: pinned
                    \*   tree - the cursor index survives the emptied line)
    ClampRoom,      \* max_line_length: room = max(0, limit - length)
                    \*   (FALSE: pinned tree - negative room)
    ResizeAtCursor, \* terminal_size_changed: the cursor is where it was
                    \*   (FALSE: pinned tree - believed at the end of the line)
    YankAtCursor,   \* ^Y inserts at the cursor (FALSE: at the start)
    DownRight,      \* history-next shows entry index+1 (FALSE: off by one)
    YankUnclamped   \* FALSE: ^Y goes through the max_line_length clamp like typed
                    \*   text (TRUE: wrong rule - the kill buffer is spliced in
                    \*   as it is: <text>(^U ^Y ^Y)* doubles the line every 3 bytes)

VARIABLES
    ed,     \* the editor + channel + what session and terminal were given
    sh,     \* ghost: ed without chunk boundaries
    inq,    \* bytes of the key being typed that are still to come
    ctx,    \* "bnd" chunk boundary | "cb" inside a session callback | "mid"
    cmode,  \* line mode as latched when the chunk began
    bellc,  \* the bell rang in this chunk
    nbell,  \* bells the terminal heard
    nkeys, napi, ncuts,
    done,   \* the client sent EOF
    lbl, log

vars == <<ed, sh, inq, ctx, cmode, bellc, nbell, nkeys, napi, ncuts, done,
          lbl, log>>
view == <<ed, sh, inq, ctx, cmode, bellc, nbell, nkeys, napi, ncuts, done>>

Widths == <<W1, W2>>
NL == <<"NL", 0, 0>>
Max(a, b) == IF a > b THEN a ELSE b
Min(a, b) == IF a < b THEN a ELSE b
LastN(n, s) == IF Len(s) <= n THEN s ELSE SubSeq(s, Len(s) - n + 1, Len(s))
IsPrefix(p, s) == Len(p) <= Len(s) /\ SubSeq(s, 1, Len(p)) = p
Remove(s, i) == SubSeq(s, 1, i - 1) \o SubSeq(s, i + 1, Len(s))

(***************************************************************************)
(* bytes, characters, keys                                                 *)
(***************************************************************************)
\* printable single-byte tokens: inserted when no binding claims them
PrintTok == {"n", "!", "[", "O", "A", "B", "C", "D", "H", "F", "M", "Z", "~",
             "1", "3", "4", "9"}

\* what the user can type: name -> bytes
TypeSeq(k) ==
    CASE k = "n"       -> <<"n">>
      [] k = "m"       -> <<"m1", "m2">>
      [] k = "w"       -> <<"w1", "w2", "w3">>
      [] k = "bang"    -> <<"!">>
      [] k = "tab"     -> <<"^I">>
      [] k = "stab"    -> <<"ESC", "[", "Z">>
      [] k = "cr"      -> <<"CR">>
      [] k = "lf"      -> <<"LF">>
      [] k = "kpenter" -> <<"ESC", "O", "M">>
      [] k = "ctrld"   -> <<"^D">>
      [] k = "bs"      -> <<"^H">>
      [] k = "del"     -> <<"DEL">>
      [] k = "delr"    -> <<"ESC", "[", "3", "~">>
      [] k = "ctrlu"   -> <<"^U">>
      [] k = "ctrlk"   -> <<"^K">>
      [] k = "ctrlp"   -> <<"^P">>
      [] k = "up"      -> <<"ESC", "[", "A">>
      [] k = "upO"     -> <<"ESC", "O", "A">>
      [] k = "ctrln"   -> <<"^N">>
      [] k = "down"    -> <<"ESC", "[", "B">>
      [] k = "downO"   -> <<"ESC", "O", "B">>
      [] k = "ctrlb"   -> <<"^B">>
      [] k = "left"    -> <<"ESC", "[", "D">>
      [] k = "leftO"   -> <<"ESC", "O", "D">>
      [] k = "ctrlf"   -> <<"^F">>
      [] k = "right"   -> <<"ESC", "[", "C">>
      [] k = "rightO"  -> <<"ESC", "O", "C">>
      [] k = "ctrla"   -> <<"^A">>
      [] k = "home"    -> <<"ESC", "[", "H">>
      [] k = "home1"   -> <<"ESC", "[", "1", "~">>
      [] k = "ctrle"   -> <<"^E">>
      [] k = "end"     -> <<"ESC", "[", "F">>
      [] k = "end4"    -> <<"ESC", "[", "4", "~">>
      [] k = "ctrlr"   -> <<"^R">>
      [] k = "ctrly"   -> <<"^Y">>
      [] k = "ctrlc"   -> <<"^C">>
      [] k = "brk33"   -> <<"ESC", "[", "3", "3", "~">>
      [] k = "esc"     -> <<"ESC">>                 \* a lone ESC
      [] k = "junk"    -> <<"ESC", "[", "9">>       \* no such sequence
      [] k = "ctrlg"   -> <<"^G">>                  \* unbound control byte

\* the editor's bindings: <<action, characters>>
BaseKeys == {
    <<"enter", <<"CR">>>>, <<"enter", <<"LF">>>>,
    <<"enter", <<"ESC", "O", "M">>>>,
    <<"eofdel", <<"^D">>>>,
    <<"bs", <<"^H">>>>, <<"bs", <<"DEL">>>>,
    <<"delr", <<"ESC", "[", "3", "~">>>>,
    <<"killline", <<"^U">>>>, <<"killend", <<"^K">>>>,
    <<"up", <<"^P">>>>, <<"up", <<"ESC", "[", "A">>>>,
    <<"up", <<"ESC", "O", "A">>>>,
    <<"down", <<"^N">>>>, <<"down", <<"ESC", "[", "B">>>>,
    <<"down", <<"ESC", "O", "B">>>>,
    <<"left", <<"^B">>>>, <<"left", <<"ESC", "[", "D">>>>,
    <<"left", <<"ESC", "O", "D">>>>,
    <<"right", <<"^F">>>>, <<"right", <<"ESC", "[", "C">>>>,
    <<"right", <<"ESC", "O", "C">>>>,
    <<"home", <<"^A">>>>, <<"home", <<"ESC", "[", "H">>>>,
    <<"home", <<"ESC", "[", "1", "~">>>>,
    <<"end", <<"^E">>>>, <<"end", <<"ESC", "[", "F">>>>,
    <<"end", <<"ESC", "[", "4", "~">>>>,
    <<"redraw", <<"^R">>>>, <<"yank", <<"^Y">>>>,
    <<"brk", <<"^C">>>>, <<"brk", <<"ESC", "[", "3", "3", "~">>>> }

HookNames == {"tab", "bang", "stab"}
HookSeq(h) == TypeSeq(h)
HookChar(h) == IF h = "bang" THEN "!" ELSE "none"   \* printable key text
NoHooks == [h \in HookNames |-> "none"]

Bindings(s) == BaseKeys \cup
    {<<h, HookSeq(h)>> : h \in {x \in HookNames : s.hook[x] # "none"}}

RECURSIVE Cols(_)
Cols(s) == IF s = <<>> THEN 0
           ELSE (IF Head(s)[1] = "w" THEN 2 ELSE 1) + Cols(Tail(s))
RECURSIVE LastRow(_)
LastRow(s) == IF s = <<>> THEN <<>>
              ELSE IF s[Len(s)] = NL THEN <<>>
              ELSE Append(LastRow(SubSeq(s, 1, Len(s) - 1)), s[Len(s)])

Hidden(s) == {i \in 1..Len(s) : s[i][3] = 1}
Reveal(s) == [i \in 1..Len(s) |-> <<s[i][1], s[i][2], 0>>]

\* server texts
Prompt == <<<<"$", 0, 0>>, <<">", 0, 0>>>>
OutLn  == <<<<"#", 0, 0>>, <<"=", 0, 0>>, NL>>
Zs(n)  == [i \in 1..n |-> <<"z", 0, 0>>]
Plus   == <<"+", 0, 0>>

(***************************************************************************)
(* the editor as a function on records                                     *)
(***************************************************************************)
Init0 == [line |-> <<>>, cur |-> 0, kill |-> <<>>, hist |-> <<>>, hidx |-> 0,
          echo |-> TRUE, lmode |-> TRUE, pend |-> <<>>, dec |-> <<>>,
          out |-> <<>>, tty |-> <<>>, pshow |-> <<>>, hook |-> NoHooks,
          wsel |-> 1, skew |-> 0, nid |-> 1,
          \* ghosts for the properties
          nav |-> <<>>, navbad |-> FALSE, editlost |-> FALSE,
          prekill |-> <<>>, kybad |-> FALSE, overins |-> FALSE,
          cap |-> MaxLen,     \* longest line the rules allow so far
          \* transient: what this step did
          bell |-> FALSE, cb |-> FALSE]

Quiet(s) == [s EXCEPT !.bell = FALSE, !.cb = FALSE]
Bell(s) == [s EXCEPT !.bell = TRUE]
\* every step but history-next forgets the navigation ghost, every step but
\* ^Y the kill ghost
Forget(s) == [s EXCEPT !.nav = <<>>, !.prekill = <<>>]

Deliver(s, item) == [s EXCEPT !.out = Append(@, item), !.cb = TRUE]
DeliverRaw(s, c) ==
    IF s.out # <<>> /\ s.out[Len(s.out)][1] = "raw"
    THEN [s EXCEPT !.out[Len(s.out)][2] = Append(@, c)]
    ELSE [s EXCEPT !.out = Append(@, <<"raw", <<c>>>>)]

\* clamp: the max_line_length rule applies (everything the USER can make
\* longer goes through it; set_input and key handlers are the application's
\* own text and are taken as they are - they raise the ghost `cap`)
InsertC(s, chars, at, clamp) ==
    LET len  == Len(s.line)
        over == clamp /\ MaxLen > 0 /\ len + Len(chars) > MaxLen
        room == IF ~over THEN Len(chars)
                ELSE IF MaxLen >= len THEN MaxLen - len
                ELSE IF ClampRoom THEN 0
                ELSE Max(0, Len(chars) - (len - MaxLen))   \* data[:negative]
        ins  == SubSeq(chars, 1, room)
        ncur == IF over /\ MaxLen < len /\ ~ClampRoom
                THEN Max(0, at - (len - MaxLen)) ELSE at + room
        s1   == IF over THEN Bell(s) ELSE s
    IN  IF ins = <<>> THEN s1
        ELSE [s1 EXCEPT !.line = SubSeq(s.line, 1, at) \o ins \o
                                 SubSeq(s.line, at + 1, len),
                        !.cur = ncur,
                        !.overins = @ \/ (MaxLen > 0 /\ len >= MaxLen)]

Insert(s, chars, at) == InsertC(s, chars, at, TRUE)

MkChar(s, t) == <<t, IF UniqueIds THEN s.nid ELSE 0, IF s.echo THEN 0 ELSE 1>>
Typed(s, t) == Insert([s EXCEPT !.nid = IF UniqueIds THEN @ + 1 ELSE @],
                      <<MkChar(s, t)>>, s.cur)

Clean(s) == \/ s.hidx < Len(s.hist) /\ s.line = s.hist[s.hidx + 1]
            \/ s.hidx = Len(s.hist) /\ s.line = <<>>

Do(s0, a) ==
  LET s == IF a \in {"down"} THEN [s0 EXCEPT !.prekill = <<>>]
           ELSE IF a = "yank" THEN [s0 EXCEPT !.nav = <<>>]
           ELSE Forget(s0)
  IN
  CASE a = "enter" ->
        LET l == s.line
            keep == (s.echo \/ ~HistSkipsHidden) /\ HistSize > 0 /\ l # <<>>
            h == IF keep THEN LastN(HistSize, Append(s.hist, l)) ELSE s.hist
        IN Deliver([s EXCEPT !.line = <<>>, !.cur = 0, !.hist = h,
                             !.hidx = Len(h),
                             !.tty = IF LineEcho
                                     THEN @ \o (IF s.echo THEN l ELSE <<>>)
                                            \o <<NL>>
                                     ELSE @,
                             !.pshow = IF LineEcho \/ ~s.echo THEN <<>> ELSE l],
                   <<"line", l>>)
    [] a = "eofdel" ->
        IF s.line = <<>> THEN Deliver(s, <<"softeof", <<>>>>)
        ELSE IF s.cur < Len(s.line)
             THEN [s EXCEPT !.line = Remove(@, s.cur + 1)]
             ELSE Bell(s)
    [] a = "bs" ->
        IF s.cur > 0 THEN [s EXCEPT !.line = Remove(@, s.cur), !.cur = @ - 1]
        ELSE Bell(s)
    [] a = "delr" ->
        IF s.cur < Len(s.line) THEN [s EXCEPT !.line = Remove(@, s.cur + 1)]
        ELSE Bell(s)
    [] a = "killline" ->
        [s EXCEPT !.kill = s.line, !.line = <<>>, !.cur = 0,
                  !.prekill = <<s.line, Len(s.line)>>]
    [] a = "killend" ->
        [s EXCEPT !.kill = SubSeq(s.line, s.cur + 1, Len(s.line)),
                  !.line = SubSeq(s.line, 1, s.cur),
                  !.prekill = <<s.line, Len(s.line)>>]
    [] a = "up" ->
        IF s.hidx > 0
        THEN [s EXCEPT !.hidx = @ - 1, !.line = s.hist[s.hidx],
                       !.cur = Len(s.hist[s.hidx]),
                       !.nav = <<s.line, Clean(s)>>]
        ELSE Bell(s)
    [] a = "down" ->
        IF s.hidx < Len(s.hist)
        THEN LET i == s.hidx + 1
                 j == IF DownRight THEN i + 1 ELSE i
                 l == IF i < Len(s.hist) THEN s.hist[j] ELSE <<>>
                 wrong == s.nav # <<>> /\ l # s.nav[1]
             IN [s EXCEPT !.hidx = i, !.line = l, !.cur = Len(l),
                          !.nav = <<>>,
                          !.navbad = @ \/ (wrong /\ s.nav[2]),
                          !.editlost = @ \/ (wrong /\ ~s.nav[2])]
        ELSE Bell([s EXCEPT !.nav = <<>>])
    [] a = "left"  -> IF s.cur > 0 THEN [s EXCEPT !.cur = @ - 1] ELSE Bell(s)
    [] a = "right" -> IF s.cur < Len(s.line) THEN [s EXCEPT !.cur = @ + 1]
                      ELSE Bell(s)
    [] a = "home"  -> [s EXCEPT !.cur = 0]
    [] a = "end"   -> [s EXCEPT !.cur = Len(s.line)]
    [] a = "redraw" -> s
    [] a = "yank" ->
        LET r == InsertC([s EXCEPT !.prekill = <<>>], s.kill,
                         IF YankAtCursor THEN s.cur ELSE 0, ~YankUnclamped)
        IN IF s.prekill # <<>> /\ ~r.bell /\
              (r.line # s.prekill[1] \/ r.cur # s.prekill[2])
           THEN [r EXCEPT !.kybad = TRUE] ELSE r
    [] a = "brk" -> Deliver(s, <<"break", <<>>>>)
    [] a \in HookNames ->
        LET kind == s.hook[a] IN
        CASE kind = "true" ->
                IF HookChar(a) # "none" THEN Typed(s, HookChar(a)) ELSE Bell(s)
          [] kind = "false" -> Bell(s)
          [] kind = "repl" ->      \* the handler appends "+", cursor stays
                [s EXCEPT !.line = Append(@, Plus),
                          !.cap = Max(@, Len(s.line) + 1)]
          [] kind = "sig" -> Deliver(s, <<"signal", <<>>>>)

\* one decoded character in line mode
Key(s0, t) ==
    LET s == [s0 EXCEPT !.pshow = <<>>]          \* _reset_pending
        p == Append(s.pend, t)
        B == Bindings(s)
    IN  IF \E k \in B : k[2] = p
        THEN Do([s EXCEPT !.pend = <<>>], (CHOOSE k \in B : k[2] = p)[1])
        ELSE IF \E k \in B : IsPrefix(p, k[2])
        THEN [s EXCEPT !.pend = p]
        ELSE IF s.pend = <<>> /\ t \in PrintTok \cup {"m", "w"}
        THEN Typed(Forget(s), t)
        ELSE Bell(Forget([s EXCEPT !.pend = <<>>]))

\* one decoded character in raw mode: straight to the session
RawChar(s, t) ==
    DeliverRaw(s, IF t \in {"n", "m", "w"}
                  THEN <<t, IF UniqueIds THEN s.nid ELSE 0, 0>>
                  ELSE <<t, 0, 0>>)

\* one byte from the channel; linemode: does the editor see it?
Feed(s0, b, linemode) ==
    LET s == Quiet(s0) IN
    IF b \in {"m1", "w1", "w2"} THEN [s EXCEPT !.dec = Append(@, b)]
    ELSE LET t  == IF b = "m2" THEN "m" ELSE IF b = "w3" THEN "w" ELSE b
             s1 == [s EXCEPT !.dec = <<>>]
         IN IF linemode THEN Key(s1, t)
            ELSE LET r == RawChar(s1, t)
                 IN IF UniqueIds /\ t \in {"n", "m", "w"}
                    THEN [r EXCEPT !.nid = @ + 1] ELSE r

(***************************************************************************)
(* API calls of the application                                            *)
(***************************************************************************)
Fits(s) == Cols(LastRow(s.tty)) + Cols(s.line) + 1 <= Min(Widths[1], Widths[2])

ApiEnabled(s, a) ==
    CASE a = "echo_off" -> s.echo
      [] a = "echo_on"  -> ~s.echo
      [] a = "raw"      -> s.lmode
      [] a = "cooked"   -> ~s.lmode
      [] a = "prompt"   -> TRUE
      [] a = "outln"    -> TRUE
      [] a = "echoback" -> s.pshow # <<>>
      [] a \in {"setinput0", "setinput1", "setinput3"} -> s.lmode
      [] a = "clear"    -> s.lmode /\ s.line # <<>>
      [] a = "resize"   -> s.lmode /\ s.pshow = <<>> /\ Fits(s)
      [] a \in {"reg_tab_true", "reg_tab_false", "reg_tab_repl", "reg_tab_sig",
                "reg_bang_true", "reg_bang_false", "reg_bang_repl",
                "reg_stab_repl", "reg_stab_sig"} -> s.lmode
      [] a = "unreg_tab"  -> s.hook["tab"] # "none"
      [] a = "unreg_bang" -> s.hook["bang"] # "none"
      [] a = "unreg_stab" -> s.hook["stab"] # "none"

SetInput(s, l, pos) == [s EXCEPT !.pshow = <<>>, !.line = l, !.cur = pos,
                                 !.cap = Max(@, Len(l))]

Api(s0, a) ==
  LET s == Forget(Quiet(s0)) IN
  CASE a = "echo_off" -> [s EXCEPT !.echo = FALSE, !.pshow = <<>>]
    [] a = "echo_on"  ->
        \* the application asks for the input to be shown: what is in the
        \* line now is shown by its decision
        [s EXCEPT !.echo = TRUE, !.pshow = <<>>, !.line = Reveal(@),
                  !.kill = IF ScrubKill THEN <<>> ELSE @]
    [] a = "raw" ->
        LET s1 == IF s.line # <<>>
                  THEN [s EXCEPT !.out = Append(@, <<"raw", s.line>>)] ELSE s
        IN [s1 EXCEPT !.lmode = FALSE, !.pshow = <<>>,
                      !.line = IF HandoverClears THEN <<>> ELSE @,
                      !.cur = IF HandoverClears /\ HandoverResets THEN 0 ELSE @]
    [] a = "cooked" -> [s EXCEPT !.lmode = TRUE, !.pshow = <<>>]
    [] a = "prompt" -> [s EXCEPT !.tty = @ \o Prompt, !.pshow = <<>>]
    [] a = "outln"  -> [s EXCEPT !.tty = @ \o OutLn, !.pshow = <<>>]
    [] a = "echoback" -> [s EXCEPT !.tty = @ \o s.pshow \o <<NL>>,
                                   !.pshow = <<>>]
    [] a = "setinput0" -> SetInput(s, Zs(3), 0)
    [] a = "setinput1" -> SetInput(s, Zs(3), 1)
    [] a = "setinput3" -> SetInput(s, Zs(3), 3)
    [] a = "clear"     -> SetInput(s, <<>>, 0)
    [] a = "resize" ->
        [s EXCEPT !.wsel = 3 - @,
                  !.skew = IF ResizeAtCursor THEN 0
                           ELSE IF s.echo
                                THEN Cols(SubSeq(s.line, s.cur + 1, Len(s.line)))
                                ELSE Cols(s.line)]
    [] a = "reg_tab_true"   -> [s EXCEPT !.hook["tab"] = "true"]
    [] a = "reg_tab_false"  -> [s EXCEPT !.hook["tab"] = "false"]
    [] a = "reg_tab_repl"   -> [s EXCEPT !.hook["tab"] = "repl"]
    [] a = "reg_tab_sig"    -> [s EXCEPT !.hook["tab"] = "sig"]
    [] a = "reg_bang_true"  -> [s EXCEPT !.hook["bang"] = "true"]
    [] a = "reg_bang_false" -> [s EXCEPT !.hook["bang"] = "false"]
    [] a = "reg_bang_repl"  -> [s EXCEPT !.hook["bang"] = "repl"]
    [] a = "reg_stab_repl"  -> [s EXCEPT !.hook["stab"] = "repl"]
    [] a = "reg_stab_sig"   -> [s EXCEPT !.hook["stab"] = "sig"]
    [] a = "unreg_tab"      -> [s EXCEPT !.hook["tab"] = "none"]
    [] a = "unreg_bang"     -> [s EXCEPT !.hook["bang"] = "none"]
    [] a = "unreg_stab"     -> [s EXCEPT !.hook["stab"] = "none"]

\* the client's EOF: pending input is handed over, then eof_received
EofOf(s0) ==
    LET s  == Forget(Quiet(s0))
        s1 == IF s.lmode /\ s.line # <<>>
              THEN [s EXCEPT !.out = Append(@, <<"raw", s.line>>)] ELSE s
    IN [s1 EXCEPT !.out = Append(@, <<"eof", <<>>>>), !.lmode = FALSE,
                  !.pshow = <<>>, !.line = IF s.lmode THEN <<>> ELSE @,
                  !.cur = IF s.lmode THEN 0 ELSE @]

(***************************************************************************)
(* behaviours                                                              *)
(***************************************************************************)
Proj(s) == [line |-> s.line, cur |-> s.cur, kill |-> s.kill, hidx |-> s.hidx,
            nh |-> Len(s.hist), echo |-> s.echo, lmode |-> s.lmode,
            nout |-> Len(s.out), ntty |-> Len(s.tty), pshow |-> s.pshow,
            nlast |-> IF s.out = <<>> THEN 0 ELSE Len(s.out[Len(s.out)][2]),
            pend |-> s.pend, wsel |-> s.wsel, nid |-> s.nid, hook |-> s.hook,
            cap |-> s.cap,
            bell |-> s.bell, cb |-> s.cb]

Lg == log' = IF KeepLog THEN Append(log, <<lbl', Proj(ed'), ctx'>>) ELSE log

Init == /\ ed = Init0 /\ sh = Init0
        /\ inq = <<>> /\ ctx = "bnd" /\ cmode = TRUE
        /\ bellc = FALSE /\ nbell = 0
        /\ nkeys = 0 /\ napi = 0 /\ ncuts = 0 /\ done = FALSE
        /\ lbl = <<"Init">> /\ log = <<>>

\* mode latched at the start of the chunk (the pinned tree reads it once)
Latch == IF ctx = "bnd" THEN ed.lmode ELSE cmode

Type(k) ==
    /\ ~done /\ inq = <<>> /\ nkeys < MaxKeys
    /\ k \in {"n", "m", "w", "bang"} => Len(ed.line) < MaxLine
    /\ k = "ctrly" => Len(ed.line) + Len(ed.kill) <= MaxLine + 1
    /\ LET bs == TypeSeq(k) IN
        /\ ed' = Feed(ed, bs[1], IF SwitchAtOnce THEN ed.lmode ELSE Latch)
        /\ sh' = Feed(sh, bs[1], sh.lmode)
        /\ inq' = Tail(bs)
        /\ lbl' = <<"T", k, bs[1]>>
    /\ cmode' = Latch
    /\ ctx' = IF ed'.cb /\ ed.lmode THEN "cb" ELSE "mid"
    /\ bellc' = (bellc \/ ed'.bell)
    /\ nbell' = IF ed'.bell /\ ~bellc THEN nbell + 1 ELSE nbell
    /\ nkeys' = nkeys + 1
    /\ UNCHANGED <<napi, ncuts, done>>
    /\ Lg

More ==
    /\ ~done /\ inq # <<>>
    /\ ed' = Feed(ed, inq[1], IF SwitchAtOnce THEN ed.lmode ELSE Latch)
    /\ sh' = Feed(sh, inq[1], sh.lmode)
    /\ inq' = Tail(inq)
    /\ lbl' = <<"B", inq[1]>>
    /\ cmode' = Latch
    /\ ctx' = IF ed'.cb /\ ed.lmode THEN "cb" ELSE "mid"
    /\ bellc' = (bellc \/ ed'.bell)
    /\ nbell' = IF ed'.bell /\ ~bellc THEN nbell + 1 ELSE nbell
    /\ UNCHANGED <<nkeys, napi, ncuts, done>>
    /\ Lg

\* a chunk ends here
Cut ==
    /\ ~done /\ ctx # "bnd" /\ ncuts < MaxCuts
    /\ ed' = [Quiet(ed) EXCEPT !.pend = IF KeepPend THEN @ ELSE <<>>,
                               !.dec = IF KeepDec THEN @ ELSE <<>>]
    /\ sh' = Quiet(sh)
    /\ ctx' = "bnd" /\ bellc' = FALSE /\ ncuts' = ncuts + 1
    /\ lbl' = <<"Cut">>
    /\ UNCHANGED <<inq, cmode, nbell, nkeys, napi, done>>
    /\ Lg

Call(a) ==
    /\ ~done /\ napi < MaxApi /\ ctx \in {"bnd", "cb"}
    /\ ApiEnabled(ed, a)
    /\ a = "resize" => ctx = "bnd"       \* the client's window change message
    /\ ed' = Api(ed, a) /\ sh' = Api(sh, a)
    /\ napi' = napi + 1
    /\ lbl' = <<"Api", a>>
    /\ UNCHANGED <<inq, ctx, cmode, bellc, nbell, nkeys, ncuts, done>>
    /\ Lg

\* the end of every behaviour: the last chunk ends, the client sends EOF
Eof ==
    /\ ~done /\ inq = <<>>
    /\ ed' = EofOf(ed) /\ sh' = EofOf(sh)
    /\ done' = TRUE /\ ctx' = "bnd" /\ bellc' = FALSE
    /\ lbl' = <<"Eof">>
    /\ UNCHANGED <<inq, cmode, nbell, nkeys, napi, ncuts>>
    /\ Lg

Next == \/ \E k \in KeySet : Type(k)
        \/ More
        \/ Cut
        \/ \E a \in ApiSet : Call(a)
        \/ Eof

Spec == Init /\ [][Next]_vars
\* simulation: do not stop early - EOF only when nothing else can be typed
SimNext == \/ \E k \in KeySet : Type(k)
           \/ More
           \/ Cut
           \/ \E a \in ApiSet : Call(a)
           \/ (nkeys >= MaxKeys /\ Eof)
SimSpec == Init /\ [][SimNext]_vars

(***************************************************************************)
(* properties                                                              *)
(***************************************************************************)
Core(s) == [line |-> s.line, cur |-> s.cur, kill |-> s.kill, hist |-> s.hist,
            hidx |-> s.hidx, echo |-> s.echo, lmode |-> s.lmode,
            pend |-> s.pend, dec |-> s.dec, out |-> s.out, tty |-> s.tty,
            pshow |-> s.pshow, hook |-> s.hook]

CursorInRange == ed.cur \in 0..Len(ed.line)

TypeOK == /\ ed.hidx \in 0..Len(ed.hist)
          /\ Len(ed.hist) <= HistSize
          /\ ctx \in {"bnd", "cb", "mid"}

\* input cut into chunks at any byte gives what the unsplit input gives
ChunkIndependent == Core(ed) = Core(sh)

\* nothing typed while echo was off is on the screen (unless the
\* application switched echo on with it still in the line)
NoSecretShown == /\ ed.echo => Hidden(ed.line) = {}
                 /\ Hidden(ed.tty) = {}
                 /\ Hidden(ed.pshow) = {}

\* in raw mode the editor holds nothing back
RawHoldsNothing == ~ed.lmode => ed.line = <<>>

\* history: next after previous restores a line that was not edited
HistoryLossless == ~ed.navbad
\* (witness, expected to be violated: an EDITED line does not survive
\* previous + next - the editor has no saved edit line)
EditSurvives == ~ed.editlost

\* kill + yank restores line and cursor
KillYankRestores == ~ed.kybad

\* max_line_length: nothing is inserted into a line that is already full
InsertBounded == ~ed.overins

\* max_line_length bounds the line whatever the user types, yanks or recalls:
\* never longer than the limit or the longest line the application itself
\* put there (hostile input costs bounded work: every key redraws the line)
LineBounded == MaxLen > 0 => /\ Len(ed.line) <= ed.cap
                             /\ Len(ed.kill) <= ed.cap
                             /\ \A i \in 1..Len(ed.hist) : Len(ed.hist[i]) <= ed.cap

\* the editor's idea of the cursor column is the terminal's
NoSkew == ed.skew = 0

\* one bell per chunk at most, none without an illegal key
BellSane == nbell <= ncuts + 1

\* vacuity witnesses (expected to be violated)
NeverCallback == ~(lbl[1] = "Api" /\ ctx = "cb")
NeverSplitEsc == ~(lbl[1] = "Cut" /\ ed.pend # <<>>)
NeverSplitUtf == ~(lbl[1] = "Cut" /\ ed.dec # <<>>)
NeverHiddenKill == ~(ed.echo /\ Hidden(ed.kill) # {})

Final == [out |-> ed.out, tty |-> ed.tty, hist |-> ed.hist, nbell |-> nbell]
EmitScript == done => PrintT(ToString(<<"SCRIPT", log, Final>>))
=============================================================================
