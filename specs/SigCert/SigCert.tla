------------------------------ MODULE SigCert ------------------------------
(***************************************************************************)
(* C16 - signatures and certificates verify only when nothing was altered. *)
(*                                                                         *)
(* Three decision tables.  Each table is given twice:                      *)
(*   - declaratively, as the rule the property states (CertRule,           *)
(*     SshsigRule, VerifyRule), and                                        *)
(*   - operationally, as the sequence of checks asyncssh performs with its *)
(*     early exits (public_key.py SSHOpenSSHCertificate.construct /        *)
(*     _decode_options / validate, SSHKey.verify; sshsig.py                *)
(*     validate_sshsig / SSHAllowedSigners.validate / match_options).      *)
(* Every case of a table is an initial state; the operational machine runs *)
(* to a verdict; the invariant Equiv says that the verdict is the rule's.  *)
(* TLC checks that for every case; `Variant' selects deliberately wrong    *)
(* machines (sensitivity), which TLC must report as violating Equiv.       *)
(* Finished cases are printed (Emit) and materialised with real keys by    *)
(* harness/drivers/sig_cert.py.                                            *)
(*                                                                         *)
(* What TLA+ does not decide: the cryptographic predicate itself.  It is   *)
(* abstracted as "the (key, algorithm, data, signature bits) tuple is the  *)
(* one that was signed"; the harness decides it on real keys (exploration).*)
(***************************************************************************)
EXTENDS Naturals, Sequences, FiniteSets, TLC

CONSTANTS
    Table,      \* "cert" | "sshsig" | "verify" | "ident" | "cross" | "msgform" : which table this run enumerates
    Variant,    \* "code" = faithful; anything else = a seeded-wrong machine
    TwoLines,   \* sshsig: also enumerate two-line allowed-signers files
    Emit        \* TRUE: print one row per finished case

VARIABLES c, pc, res, stage
vars == <<c, pc, res, stage>>

-----------------------------------------------------------------------------
(* Certificates                                                            *)

CritNames == {"force-command", "source-address", "verify-required", "unknown"}
\* critical options asyncssh understands per certificate type
Understood(t) == IF t = "user" THEN {"force-command", "source-address"} ELSE {}

Nows == {"a-1", "a", "b-1", "b"}       \* now relative to [valid_after, valid_before)
InWindow(n) == n \in {"a", "b-1"}
NotBefore(n) == n # "a-1"              \* now >= valid_after
NotAfter(n)  == n # "b"                \* now <  valid_before

CertCases ==
    [ctype : {"user", "host", "other"},   \* type field in the certificate
     want  : {"user", "host", "any"},     \* the use it is validated for
     now   : Nows,
     princ : SUBSET {"p", "q", "odd"},    \* principals listed; "odd" = listed names that
                                          \* are never the wanted one (empty string, blank,
                                          \* look-alikes, duplicates, very long, non-ASCII)
     wantp : {"none", "p", "q"},          \* principal asked for
     crit  : SUBSET CritNames,            \* critical options present
     ext   : {"none", "empty", "wrapped"},\* an unknown *extension* (ignored)
     casig : {"ok", "bad"}]               \* CA signature covers exact contents

CertRule(k) ==
    /\ k.casig = "ok"
    /\ k.ctype \in {"user", "host"}
    /\ (k.want = "any" \/ k.want = k.ctype)
    /\ InWindow(k.now)
    /\ (k.wantp = "none" \/ k.princ = {} \/ k.wantp \in k.princ)
    /\ k.crit \subseteq Understood(k.ctype)

\* The stage at which the code is expected to refuse (for conformance only)
CertStages == <<"sig", "type", "crit", "ext", "vtype", "vafter", "vbefore", "vprinc">>

CertCheck(s, k) ==        \* TRUE = this stage lets the certificate through
    CASE s = "sig"     -> k.casig = "ok"
      [] s = "type"    -> k.ctype \in {"user", "host"}
      [] s = "crit"    -> IF Variant = "accept_unknown_critical"
                          THEN (k.crit \ {"unknown"}) \subseteq Understood(k.ctype)
                          ELSE k.crit \subseteq Understood(k.ctype)
      [] s = "ext"     -> TRUE                    \* unknown extensions are ignored
      [] s = "vtype"   -> k.want = "any" \/ k.want = k.ctype
      [] s = "vafter"  -> NotBefore(k.now)
      [] s = "vbefore" -> IF Variant = "closed_before" THEN TRUE ELSE NotAfter(k.now)
      [] s = "vprinc"  -> IF Variant = "no_principal" THEN TRUE
                          ELSE (k.wantp = "none" \/ k.princ = {} \/ k.wantp \in k.princ)

-----------------------------------------------------------------------------
(* SSHSIG                                                                  *)

Line == [pat : {"match", "nomatch", "neg"},    \* principals pattern list vs wanted principal
         ns  : {"absent", "match", "nomatch"}, \* namespaces= option vs signature namespace
         va  : {"absent", "set", "epoch"},     \* valid-after=a / valid-after=0 (1970)
         vb  : {"absent", "set", "epoch"},     \* valid-before=b / valid-before=0 (1970)
         ca  : BOOLEAN,                        \* cert-authority
         key : {"signer", "ca", "other"}]      \* key on the line

\* reduced line profiles for two-line files
Line2 == {l \in Line : /\ l.pat \in {"match", "nomatch"} /\ l.ns \in {"absent", "nomatch"}
                       /\ l.va = "absent" /\ l.vb = "set" /\ l.key \in {"signer", "ca"}}

\* cert_odd: the certificate lists only odd names (e.g. the empty string)
Signers == {"key", "cert_ok", "cert_expired", "cert_princ", "cert_odd"}

SigCasesFull ==      \* untampered signature: every line
    [msg : {"same"}, nsblob : {"same"}, signer : Signers, now : Nows,
     lines : {<<l>> : l \in Line}]
GoodLines == {l \in Line : l.pat = "match" /\ l.ns = "match" /\ l.va = "set" /\ l.vb = "set"
                           /\ ((~l.ca /\ l.key = "signer") \/ (l.ca /\ l.key = "ca"))}
SigCasesTamper ==    \* altered message / namespace: lines that would otherwise authorise
    [msg : {"same", "diff"}, nsblob : {"same", "changed"}, signer : {"key", "cert_ok"},
     now : {"a", "b-1"}, lines : {<<l>> : l \in GoodLines}]
SigCasesTwo ==
    IF TwoLines
    THEN [msg : {"same"}, nsblob : {"same"}, signer : Signers, now : {"b-1", "b"},
          lines : {<<l1, l2>> : l1 \in Line2, l2 \in Line2}]
    ELSE {}
SigCases == SigCasesFull \cup SigCasesTamper \cup SigCasesTwo

LineOK(l, n) ==
    /\ l.pat = "match"
    /\ (IF Variant = "ignore_namespace" THEN TRUE ELSE l.ns # "nomatch")
    /\ (l.va = "set" => NotBefore(n))
    /\ (l.vb = "set" => NotAfter(n))
    /\ (IF Variant = "before_truthy" THEN TRUE ELSE l.vb # "epoch")  \* now >= 0 always

IsCert(k) == k.signer # "key"

SshsigRule(k) ==
    /\ k.msg = "same" /\ k.nsblob = "same"
    /\ \E i \in DOMAIN k.lines :
          LET l == k.lines[i] IN
          /\ l.pat = "match" /\ l.ns # "nomatch"
          /\ (l.va = "set" => NotBefore(k.now)) /\ (l.vb = "set" => NotAfter(k.now))
          /\ l.vb # "epoch"          \* valid-before=0: never valid (valid-after=0: always)
          /\ \/ ~l.ca /\ l.key = "signer"
             \/ l.ca /\ l.key = "ca" /\ k.signer = "cert_ok"

\* the crypto step of validate_sshsig: the signed bytes are
\* MAGIC || namespace-from-blob || hash(message)
SigCrypto(k) ==
    /\ k.msg = "same"
    /\ (IF Variant = "ignore_namespace" THEN TRUE ELSE k.nsblob = "same")

KeyEntryHit(k) == \E i \in DOMAIN k.lines :
    ~k.lines[i].ca /\ k.lines[i].key = "signer" /\ LineOK(k.lines[i], k.now)
CaEntryHit(k) == \E i \in DOMAIN k.lines :
    k.lines[i].ca /\ k.lines[i].key = "ca" /\ LineOK(k.lines[i], k.now)

SigStages == <<"crypto", "keyentries", "caentries", "certvalid">>

-----------------------------------------------------------------------------
(* Identity table: the WANTED identity next to the certificate's principal  *)
(* list, and the validity window as integers, through every entry point     *)
(* that takes a principal.  Names are records [b, d]: base name and a       *)
(* decoration (case variant, leading / trailing blank, prefix, suffix, a    *)
(* comma, wildcard characters), so that "compare after strip / lower" is    *)
(* expressible as a (wrong) variant.  Documented rule: None = no check;     *)
(* otherwise exact membership unless the list is empty.                     *)

Decos == {"upper", "lspace", "tspace", "prefix", "suffix", "comma", "star", "qmark"}
NoneP == [b |-> "<none>", d |-> "plain"]      \* the caller does not care
Empty == [b |-> "", d |-> "plain"]            \* the empty string
Alice == [b |-> "alice", d |-> "plain"]
Bob   == [b |-> "bob", d |-> "plain"]
DecoAlice == {[b |-> "alice", d |-> x] : x \in Decos}

Lists   == {<<>>, <<Empty>>, <<Alice>>, <<Alice, Bob>>, <<Bob>>, <<Empty, Alice>>}
              \cup {<<n>> : n \in DecoAlice}
Wanteds == {NoneP, Empty, Alice, Bob} \cup DecoAlice

\* pattern lists of an allowed-signers line (one white-space free token)
LineLists == {<<Alice>>, <<Bob>>, <<Alice, Bob>>}
               \cup {<<[b |-> "alice", d |-> x]>> : x \in Decos \ {"lspace", "tspace"}}
\* wildcard semantics of one pattern against the wanted identity (the wanted
\* identity itself is never a pattern): "ali*", "alic?", "alice,bob" = two patterns
StartsAli(w) == w.b = "alice" /\ w.d \notin {"upper", "lspace"}
Len5Alic(w)  == w = Alice \/ (w.b = "alice" /\ w.d = "qmark")
PatMatch(p, w) == CASE p.d = "star"  -> StartsAli(w)
                    [] p.d = "qmark" -> Len5Alic(w)
                    [] p.d = "comma" -> w \in {Alice, Bob}
                    [] OTHER         -> w = p
LineMatch(l, w) == \E i \in DOMAIN l : PatMatch(l[i], w)
LineEntry(k) == k.entry \in {"sshsig_key", "sshsig_caline"}

\* (B'') pattern LISTS with negation: the principals field of an allowed-
\* signers line and its namespaces="..." option are comma separated lists of
\* wildcard patterns, each possibly negated with `!'.  A list matches iff
\* SOME positive pattern matches and NO negated one does - so a list made of
\* negated patterns only (or an empty one) matches nothing.
PatAtoms == {"alice", "bob", "ali*", "*"}
PItems == [neg : BOOLEAN, a : PatAtoms]
PLists == {<<x>> : x \in PItems} \cup {<<x, y>> : x \in PItems, y \in PItems}
NsAtoms == {"file", "git", "fi*", "*"}        \* the signature's namespace is "file"
NItems == [neg : BOOLEAN, a : NsAtoms]
NLists == {<<x>> : x \in NItems} \cup {<<x, y>> : x \in NItems, y \in NItems}
NoNs == <<[neg |-> FALSE, a |-> "<absent>"]>>     \* no namespaces= option
EmptyNs == <<[neg |-> FALSE, a |-> ""]>>          \* namespaces=""
PosAll == <<[neg |-> FALSE, a |-> "*"]>>
PatWanted == {Alice, Bob, Empty, [b |-> "alice", d |-> "suffix"]}

AtomMatch(a, w) == CASE a = "alice" -> w = Alice
                     [] a = "bob"   -> w = Bob
                     [] a = "ali*"  -> StartsAli(w)
                     [] a = "*"     -> TRUE
NsAtomMatch(a) == a \in {"file", "fi*", "*"}
PListMatch(l, w) ==
    LET pos == \E i \in DOMAIN l : ~l[i].neg /\ AtomMatch(l[i].a, w)
        neg == \E i \in DOMAIN l : l[i].neg /\ AtomMatch(l[i].a, w)
        nopos == \A i \in DOMAIN l : l[i].neg
    IN ~neg /\ (pos \/ (Variant = "NegOnlyMatchesAll" /\ nopos))
NListMatch(l) ==
    IF l = NoNs THEN TRUE
    ELSE IF l = EmptyNs THEN FALSE
    ELSE LET pos == \E i \in DOMAIN l : ~l[i].neg /\ NsAtomMatch(l[i].a)
             neg == \E i \in DOMAIN l : l[i].neg /\ NsAtomMatch(l[i].a)
             nopos == \A i \in DOMAIN l : l[i].neg
         IN ~neg /\ (pos \/ (Variant = "NegOnlyMatchesAll" /\ nopos))
\* what the documented rule says (no variant)
PRule(l, w) == (\E i \in DOMAIN l : ~l[i].neg /\ AtomMatch(l[i].a, w))
               /\ ~(\E i \in DOMAIN l : l[i].neg /\ AtomMatch(l[i].a, w))
NRule(l) == l = NoNs \/ (l # EmptyNs /\ (\E i \in DOMAIN l : ~l[i].neg /\ NsAtomMatch(l[i].a))
                                      /\ ~(\E i \in DOMAIN l : l[i].neg /\ NsAtomMatch(l[i].a)))

PatBase == [entry : {"sshsig_pat"}, ctype : {"user"}, want : {"same"}, list : {<<>>},
            after : {0}, before : {5}, now : {3}]
PatCases ==
    \* every principals list x every wanted identity, no namespaces option
    [entry : {"sshsig_pat"}, ctype : {"user"}, want : {"same"}, list : {<<>>},
     after : {0}, before : {5}, now : {3}, ca : BOOLEAN, plist : PLists,
     nslist : {NoNs}, wanted : PatWanted]
      \cup
    \* every namespaces list (and the empty one), principals "*"
    [entry : {"sshsig_pat"}, ctype : {"user"}, want : {"same"}, list : {<<>>},
     after : {0}, before : {5}, now : {3}, ca : BOOLEAN, plist : {PosAll},
     nslist : NLists \cup {EmptyNs}, wanted : {Alice, Empty}]

\* time points: 0 = 0, 1 = a-1, 2 = a, 3 = b-1, 4 = b, 5 = 2^64-1
Bounds == {0, 2, 4, 5}

IdentCases ==
    \* (A) every wanted identity x every list, certificate.validate()
    [entry : {"validate"}, ctype : {"user", "host"}, want : {"same", "any", "other"},
     list : Lists, wanted : Wanteds, after : {2}, before : {4}, now : {2}]
      \cup
    \* (B) the other entry points that take a principal (never None there;
    \*     a host key alias cannot be the empty string)
    [entry : {"sshsig", "login"}, ctype : {"user"}, want : {"same"},
     list : Lists, wanted : Wanteds \ {NoneP}, after : {0}, before : {5}, now : {3}]
      \cup
    [entry : {"hostalias"}, ctype : {"host"}, want : {"same"},
     list : Lists, wanted : Wanteds \ {NoneP, Empty}, after : {0}, before : {5}, now : {3}]
      \cup
    \* (B') SSHSIG: the wanted identity against the principals *pattern list*
    \*      of an allowed-signers line (plain key line / cert-authority line
    \*      with a certificate valid for everybody); `list' is the pattern list
    [entry : {"sshsig_key", "sshsig_caline"}, ctype : {"user"}, want : {"same"},
     list : LineLists, wanted : Wanteds \ {NoneP}, after : {0}, before : {5}, now : {3}]
      \cup PatCases
      \cup
    \* (C) every validity window (including 0 and inverted ones) x every now
    [entry : {"validate", "sshsig"}, ctype : {"user"}, want : {"same"},
     list : {<<>>, <<Alice>>}, wanted : {Alice}, after : Bounds, before : Bounds,
     now : 0..4]

Range(s) == {s[i] : i \in DOMAIN s}

IdentRule(k) ==
    /\ k.want # "other"
    /\ k.after <= k.now /\ k.now < k.before
    /\ IF k.entry = "sshsig_pat" THEN PRule(k.plist, k.wanted) /\ NRule(k.nslist)
       ELSE IF LineEntry(k) THEN LineMatch(k.list, k.wanted)
       ELSE (k.wanted = NoneP \/ k.list = <<>> \/ k.wanted \in Range(k.list))

Strip(n) == IF n.d \in {"lspace", "tspace"} THEN [n EXCEPT !.d = "plain"] ELSE n
Lower(n) == IF n.d = "upper" THEN [n EXCEPT !.d = "plain"] ELSE n
Norm(n)  == CASE Variant = "strip_compare" -> Strip(n)
              [] Variant = "lower_compare" -> Lower(n)
              [] OTHER -> n

IdentStages == <<"vtype", "vafter", "vbefore", "vprinc">>

IdentCheck(s, k) ==
    CASE s = "vtype"   -> k.want # "other"
      [] s = "vafter"  -> k.now >= k.after
      [] s = "vbefore" -> IF Variant = "before_truthy" /\ k.before = 0 THEN TRUE
                          ELSE IF Variant = "closed_before" THEN k.now <= k.before
                          ELSE k.now < k.before
      [] s = "vprinc"  ->
            LET dontcare == IF Variant = "empty_is_none"
                            THEN k.wanted \in {NoneP, Empty} ELSE k.wanted = NoneP
            IN IF k.entry = "sshsig_pat"
               THEN PListMatch(k.plist, k.wanted) /\ NListMatch(k.nslist)
               ELSE IF LineEntry(k) THEN (dontcare \/ LineMatch(k.list, k.wanted))
               ELSE dontcare \/ k.list = <<>>
                    \/ Norm(k.wanted) \in {Norm(n) : n \in Range(k.list)}

-----------------------------------------------------------------------------
(* Cross-algorithm table: every key x every registered signature algorithm  *)
(* NAME (of all key types) as the outer name of an otherwise genuine        *)
(* signature, after keys of the other types have been constructed in the    *)
(* same process.  Rule: accepted iff the name is one of the algorithms of   *)
(* THAT key and denotes the algorithm the signature was made with (for RSA: *)
(* same hash; alias names are the same algorithm).  The set of names a key  *)
(* object accepts is a function of the key alone (NameSetLocal).            *)

XKeys == {"rsa", "ecdsa256", "ecdsa384", "ecdsa521", "ed25519", "ed448", "dss"}
RsaHash == [n \in {"rsa-sha2-256", "rsa-sha2-512", "ssh-rsa", "ssh-rsa-sha224@ssh.com",
                   "ssh-rsa-sha256@ssh.com", "ssh-rsa-sha384@ssh.com",
                   "ssh-rsa-sha512@ssh.com", "rsa2048-sha256"} |->
              CASE n \in {"rsa-sha2-256", "ssh-rsa-sha256@ssh.com", "rsa2048-sha256"} -> "sha256"
                [] n \in {"rsa-sha2-512", "ssh-rsa-sha512@ssh.com"} -> "sha512"
                [] n = "ssh-rsa" -> "sha1"
                [] n = "ssh-rsa-sha224@ssh.com" -> "sha224"
                [] OTHER -> "sha384"]
XNamesOf(k) ==
    CASE k = "rsa"      -> DOMAIN RsaHash
      [] k = "ecdsa256" -> {"ecdsa-sha2-nistp256"}
      [] k = "ecdsa384" -> {"ecdsa-sha2-nistp384"}
      [] k = "ecdsa521" -> {"ecdsa-sha2-nistp521"}
      [] k = "ed25519"  -> {"ssh-ed25519"}
      [] k = "ed448"    -> {"ssh-ed448"}
      [] k = "dss"      -> {"ssh-dss"}
ForeignNames == {"ecdsa-sha2-1.3.132.0.10", "sk-ssh-ed25519@openssh.com",
                 "sk-ecdsa-sha2-nistp256@openssh.com",
                 "webauthn-sk-ecdsa-sha2-nistp256@openssh.com", "x509v3-ssh-rsa",
                 "x509v3-ecdsa-sha2-nistp256", "x509v3-ssh-ed25519", "bogus", ""}
XAllNames == UNION {XNamesOf(k) : k \in XKeys} \cup ForeignNames
\* the algorithms signatures are made with
XSignAlgs(k) == IF k = "rsa" THEN {"rsa-sha2-256", "rsa-sha2-512", "ssh-rsa"} ELSE XNamesOf(k)
IsEc(k) == k \in {"ecdsa256", "ecdsa384", "ecdsa521"}

CrossCases ==
    {k \in [key : XKeys, sigalg : XAllNames, name : XAllNames,
            path : {"verify", "cert", "sshsig"},
            built : {{}, XKeys},            \* key types constructed before this key is used
            order : {"fwd", "rev"}] :
        /\ k.sigalg \in XSignAlgs(k.key)
        /\ (k.built = {} => k.order = "fwd")}

SameAlgorithm(k) ==
    IF k.key = "rsa" THEN k.name \in DOMAIN RsaHash /\ RsaHash[k.name] = RsaHash[k.sigalg]
    ELSE k.name = k.sigalg
CrossRule(k) == k.name \in XNamesOf(k.key) /\ SameAlgorithm(k)

\* names the key OBJECT accepts
XAccepted(k) ==
    IF Variant = "SharedNameSet" /\ IsEc(k.key)
    THEN XNamesOf(k.key) \cup UNION {XNamesOf(b) : b \in {x \in k.built : IsEc(x)}}
    ELSE XNamesOf(k.key)

CrossStages == <<"alg", "crypto">>
CrossCheck(s, k) ==
    CASE s = "alg"    -> k.name \in XAccepted(k)
      [] s = "crypto" -> IF k.key = "rsa" THEN RsaHash[k.name] = RsaHash[k.sigalg]
                         ELSE TRUE      \* the other verifiers do not look at the name again

NameSetLocal == Table = "cross" => XAccepted(c) = XNamesOf(c.key)

-----------------------------------------------------------------------------
(* Message-form table (SSHSIG): the FORM in which the message is handed to   *)
(* the signer and to the verifier - bytes, a file name (str / PurePath), a   *)
(* precomputed digest (is_hashed), or ssh-keygen -Y as the other party - is  *)
(* a field of the row; the verdict must not depend on it: all forms of the   *)
(* SAME message are interchangeable and no form validates another message    *)
(* (the file padded with NULs to a chunk boundary, extended, truncated).     *)

MsgSizes == {0, 1, 8191, 8192, 8193, 65535, 65536, 65537, 131073}
MsgRels  == {"same", "pad8k", "pad64k", "extended", "truncated"}
SForms   == {"bytes", "file", "hashed", "keygen"}
VForms   == {"bytes", "file", "path", "hashed", "keygen"}
MsgCases ==
    {k \in [size : MsgSizes, hash : {"sha256", "sha512"}, sform : SForms, vform : VForms,
            rel : MsgRels] :
        /\ ~(k.sform = "keygen" /\ k.vform = "keygen")
        /\ (k.rel = "truncated" => k.size > 0)}

PadTo(n, ch) == IF n % ch = 0 THEN n ELSE (n \div ch + 1) * ch
Mk(len, kind, stale) == [len |-> len, kind |-> kind, stale |-> stale]
SignMsg(k) == Mk(k.size, "m", FALSE)
VerMsg(k) ==
    CASE k.rel = "same"      -> Mk(k.size, "m", FALSE)
      [] k.rel = "pad8k"     -> IF PadTo(k.size, 8192) = k.size THEN Mk(k.size, "m", FALSE)
                                ELSE Mk(PadTo(k.size, 8192), "mnul", FALSE)
      [] k.rel = "pad64k"    -> IF PadTo(k.size, 65536) = k.size THEN Mk(k.size, "m", FALSE)
                                ELSE Mk(PadTo(k.size, 65536), "mnul", FALSE)
      [] k.rel = "extended"  -> Mk(k.size + 1, "mx", FALSE)
      [] k.rel = "truncated" -> Mk(k.size - 1, "mt", FALSE)
NulKind(kd) == CASE kd = "m" -> "mnul" [] kd = "mnul" -> "mnul" [] kd = "mx" -> "mxnul"
                 [] OTHER -> "mtnul"
\* what gets hashed for a message handed over in a given form
Hashed(form, m) ==
    IF Variant = "FileFormHashesBuffer" /\ form \in {"file", "path"} /\ m.len % 65536 # 0
    THEN (IF m.len < 65536 THEN Mk(65536, NulKind(m.kind), FALSE)   \* one partial block + NULs
          ELSE Mk(m.len, m.kind, TRUE))                             \* later block + stale bytes
    ELSE m
MsgRule(k) == VerMsg(k) = SignMsg(k)
MsgStages == <<"digest">>
MsgCheck(k) == Hashed(k.sform, SignMsg(k)) = Hashed(k.vform, VerMsg(k))

-----------------------------------------------------------------------------
(* Plain signatures                                                        *)

Algs == {"rsa-sha2-256", "rsa-sha2-512", "ssh-rsa", "ecdsa256", "ecdsa384", "ecdsa521",
         "ed25519", "ed448", "dss"}
KeyTypeOf(a) == IF a \in {"rsa-sha2-256", "rsa-sha2-512", "ssh-rsa"} THEN "rsa" ELSE a
Supported(kt) == {a \in Algs : KeyTypeOf(a) = kt}

VerCases ==
    {k \in [alg  : Algs,                               \* algorithm the signature was made with
            name : {"same", "othersup", "unsup"},      \* algorithm name in the blob
            key  : {"same", "othersame", "othertype"}, \* verifying key
            data : {"same", "diff"},
            sig  : {"same", "flip", "trunc", "ext",   \* signature bits
                    "reenc"}] :  \* "reenc": a length-changing re-encoding of the same
                                 \* value (leading zero added / stripped, padded, ...)
       k.name = "othersup" => Cardinality(Supported(KeyTypeOf(k.alg))) > 1}

VerifyRule(k) == k.name = "same" /\ k.key = "same" /\ k.data = "same" /\ k.sig = "same"

\* is the name found in the blob one the verifying key accepts?
NameAccepted(k) ==
    IF Variant = "ignore_algname" THEN TRUE
    ELSE CASE k.key = "othertype" -> FALSE      \* other key type: name of another family
           [] k.name = "unsup"    -> FALSE
           [] OTHER               -> TRUE
\* abstract crypto: the tuple is exactly the signed one
\* only the canonical blob produced by sign() verifies
VerCrypto(k) == /\ k.key = "same" /\ k.data = "same"
                /\ (k.sig = "same" \/ (Variant = "normalise_sig" /\ k.sig = "reenc"))
                /\ (IF Variant = "ignore_algname" THEN TRUE ELSE k.name = "same")

VerStages == <<"alg", "crypto">>

-----------------------------------------------------------------------------
Cases == CASE Table = "cert"   -> CertCases
           [] Table = "sshsig" -> SigCases
           [] Table = "verify" -> VerCases
           [] Table = "ident"  -> IdentCases
           [] Table = "cross"  -> CrossCases
           [] Table = "msgform" -> MsgCases

Stages == CASE Table = "cert"   -> CertStages
            [] Table = "sshsig" -> SigStages
            [] Table = "verify" -> VerStages
            [] Table = "ident"  -> IdentStages
            [] Table = "cross"  -> CrossStages
            [] Table = "msgform" -> MsgStages

Rule(k) == CASE Table = "cert"   -> CertRule(k)
             [] Table = "sshsig" -> SshsigRule(k)
             [] Table = "verify" -> VerifyRule(k)
             [] Table = "ident"  -> IdentRule(k)
             [] Table = "cross"  -> CrossRule(k)
             [] Table = "msgform" -> MsgRule(k)

Init == c \in Cases /\ pc = 1 /\ res = "pending" /\ stage = "none"

Accept == res' = "accept" /\ stage' = "none" /\ pc' = 0
Reject(s) == res' = "reject" /\ stage' = s /\ pc' = 0
Goto(n) == pc' = n /\ UNCHANGED <<res, stage>>

CertStep ==
    LET s == CertStages[pc] IN
    IF CertCheck(s, c)
    THEN IF pc = Len(CertStages) THEN Accept ELSE Goto(pc + 1)
    ELSE Reject(s)

SigStep ==
    LET s == SigStages[pc] IN
    CASE s = "crypto"     -> IF SigCrypto(c) THEN Goto(2) ELSE Reject(s)
      [] s = "keyentries" -> IF KeyEntryHit(c) THEN Accept
                             ELSE IF IsCert(c) THEN Goto(3) ELSE Reject(s)
      [] s = "caentries"  -> IF CaEntryHit(c) THEN Goto(4) ELSE Reject(s)
      [] s = "certvalid"  -> IF c.signer = "cert_ok" THEN Accept ELSE Reject(s)

MsgStep == IF MsgCheck(c) THEN Accept ELSE Reject("digest")

CrossStep ==
    LET s == CrossStages[pc] IN
    IF CrossCheck(s, c)
    THEN IF pc = Len(CrossStages) THEN Accept ELSE Goto(pc + 1)
    ELSE Reject(s)

IdentStep ==
    LET s == IdentStages[pc] IN
    IF IdentCheck(s, c)
    THEN IF pc = Len(IdentStages) THEN Accept ELSE Goto(pc + 1)
    ELSE Reject(s)

VerStep ==
    LET s == VerStages[pc] IN
    CASE s = "alg"    -> IF NameAccepted(c) THEN Goto(2) ELSE Reject(s)
      [] s = "crypto" -> IF VerCrypto(c) THEN Accept ELSE Reject(s)

Next ==
    /\ pc > 0 /\ UNCHANGED c
    /\ CASE Table = "cert"   -> CertStep
         [] Table = "sshsig" -> SigStep
         [] Table = "verify" -> VerStep
         [] Table = "ident"  -> IdentStep
         [] Table = "cross"  -> CrossStep
         [] Table = "msgform" -> MsgStep

Spec == Init /\ [][Next]_vars

-----------------------------------------------------------------------------
TypeOK == /\ res \in {"pending", "accept", "reject"}
          /\ pc \in 0..Len(Stages)
          /\ (res = "pending") = (pc > 0)

\* the operational verdict is the rule's verdict
Equiv == res # "pending" => ((res = "accept") = Rule(c))

\* every step either finishes the case or moves to a later stage, so every
\* case reaches a verdict within Len(Stages) steps
Progress == [][pc' = 0 \/ pc' > pc]_vars

EmitRows == (Emit /\ res # "pending") => PrintT(ToString(<<c, res, stage>>))

\* vacuity witnesses (expected to be violated = reachable)
NeverAccept == res # "accept"
NeverRejectLate == ~(res = "reject" /\ stage \in {"vbefore", "certvalid", "crypto"})
=============================================================================
