------------------------------ MODULE SftpAttrs ------------------------------
(***************************************************************************)
(* What an SFTP attribute block can carry in protocol versions 3..6        *)
(* (SFTPAttrs.encode / decode, sftp.py 1751-1989; SFTPName 2138-2154), as  *)
(* a case table: a case = (version, set of attribute fields that are set). *)
(* Carried(v, P) says, for every field, in which form it comes out of      *)
(* decode(encode(.)):                                                      *)
(*    "val"   unchanged                                                    *)
(*    "zero"  0 although it was not set (one sub-second flag covers all    *)
(*            time stamps that are present)                                *)
(*    "str"   uid / gid re-expressed as owner / group strings (v4+)        *)
(*    absent  the field is not carried (comes out unset)                   *)
(* Every case is an initial state; TLC checks the table's own properties   *)
(* and prints it; the harness encodes and decodes real SFTPAttrs/SFTPName  *)
(* objects for every case and compares.                                    *)
(***************************************************************************)
EXTENDS Integers, FiniteSets, TLC

CONSTANTS
    Vary,        \* the fields whose presence is enumerated
    Always,      \* fields present in every case
    Emit,        \* TRUE: print the table (run with -workers 1)
    AllocGuard,  \* TRUE: alloc_size is only encoded in v6 (intended); FALSE: the pinned
                 \* tree encodes it in every version, which v3-v5 cannot decode
    PairRule     \* TRUE: uid/gid, atime/mtime (v3), owner/group, attrib_bits/valid travel
                 \* only in pairs (the wire format); FALSE: sensitivity variant

Fields == {"size", "alloc_size", "uid", "gid", "owner", "group", "permissions",
           "atime", "atime_ns", "crtime", "crtime_ns", "mtime", "mtime_ns",
           "ctime", "ctime_ns", "acl", "attrib_bits", "attrib_valid", "text_hint",
           "mime_type", "nlink", "untrans_name", "extended"}
ASSUME Vary \cup Always \subseteq Fields

Versions == 3 .. 6
NsOf == [atime |-> "atime_ns", crtime |-> "crtime_ns", mtime |-> "mtime_ns", ctime |-> "ctime_ns"]
Times(v) == IF v = 3 THEN {} ELSE IF v < 6 THEN {"atime", "crtime", "mtime"}
            ELSE {"atime", "crtime", "mtime", "ctime"}

Both(P, a, b) == IF PairRule THEN a \in P /\ b \in P ELSE a \in P \/ b \in P

\* encode() refuses: owner/group names cannot be expressed in v3
Rejects(v, P) == v = 3 /\ ~Both(P, "uid", "gid") /\ ("owner" \in P /\ "group" \in P)

\* the encoded block cannot be decoded by the same version
Undecodable(v, P) == ~AllocGuard /\ v < 6 /\ "alloc_size" \in P

Subsecond(P) == \E f \in {"atime_ns", "crtime_ns", "mtime_ns", "ctime_ns"} : f \in P

Carried(v, P) ==
    LET pick(S) == {<<f, "val">> : f \in S \cap P}
        ids == IF v = 3
               THEN (IF Both(P, "uid", "gid") THEN pick({"uid", "gid"}) ELSE {})
               ELSE IF Both(P, "owner", "group") THEN pick({"owner", "group"})
               ELSE IF Both(P, "uid", "gid")
                    THEN {<<"owner", "str">>, <<"group", "str">>} ELSE {}
        times == IF v = 3
                 THEN (IF Both(P, "atime", "mtime") THEN pick({"atime", "mtime"}) ELSE {})
                 ELSE pick(Times(v)) \cup
                      (IF Subsecond(P)
                       THEN {<<NsOf[t], IF NsOf[t] \in P THEN "val" ELSE "zero">> :
                                 t \in Times(v) \cap P}
                       ELSE {})
        bits == IF v >= 5 /\ Both(P, "attrib_bits", "attrib_valid")
                THEN pick({"attrib_bits", "attrib_valid"}) ELSE {}
    IN  pick({"size", "permissions", "extended"})
        \cup ids \cup times \cup bits
        \cup (IF v >= 4 THEN pick({"acl"}) ELSE {})
        \cup (IF v >= 6 THEN pick({"alloc_size", "text_hint", "mime_type", "nlink",
                                   "untrans_name"}) ELSE {})

\* file type after the round trip: v3 derives it from the permission bits,
\* v4 folds the types it does not know into SPECIAL, v5+ keep it
TypeRule(v, P) == IF v = 3 THEN (IF "permissions" \in P THEN "from_mode" ELSE "unknown")
                  ELSE IF v = 4 THEN "fold_special" ELSE "same"

\* the longname of a directory entry exists only in v3
LongName(v) == v = 3

Outcome(v, P) == IF Rejects(v, P) THEN "reject"
                 ELSE IF Undecodable(v, P) THEN "undecodable" ELSE "ok"

-----------------------------------------------------------------------------
VARIABLES v, P
Init == v \in Versions /\ P \in {Always \cup X : X \in SUBSET Vary}
Next == UNCHANGED <<v, P>>
Spec == Init /\ [][Next]_<<v, P>>

Table == Emit => PrintT(<<v, P, Outcome(v, P), Carried(v, P), TypeRule(v, P), LongName(v)>>)

(* properties of the table *)
CarriedFields(vv, PP) == {x[1] : x \in Carried(vv, PP)}
\* nothing is invented: a field comes out only if it (or, for the uid->owner
\* translation and the shared sub-second flag, its source) went in
NothingInvented ==
    \A x \in Carried(v, P) :
        \/ x[2] = "val" /\ x[1] \in P
        \/ x[2] = "str" /\ v >= 4 /\ "uid" \in P /\ "gid" \in P
        \/ x[2] = "zero" /\ Subsecond(P)
\* a later version carries at least what an earlier one does, except that the
\* numeric ids of v3 become names in v4+
Monotone ==
    \A w \in Versions : w > v /\ w >= 4 /\ v >= 4 =>
        CarriedFields(v, P) \subseteq CarriedFields(w, P)
\* the fields each version defines (SFTPAttrs docstring), alone, are carried unchanged
Defined(vv) ==
    {"size", "permissions", "extended"} \cup
    (IF vv = 3 THEN {"uid", "gid", "atime", "mtime"}
     ELSE {"owner", "group", "atime", "atime_ns", "crtime", "crtime_ns", "mtime",
           "mtime_ns", "acl"}) \cup
    (IF vv >= 5 THEN {"attrib_bits", "attrib_valid"} ELSE {}) \cup
    (IF vv >= 6 THEN {"alloc_size", "ctime", "ctime_ns", "text_hint", "mime_type",
                      "nlink", "untrans_name"} ELSE {})
PairComplete(PP) ==
    /\ ("uid" \in PP <=> "gid" \in PP) /\ ("owner" \in PP <=> "group" \in PP)
    /\ ("attrib_bits" \in PP <=> "attrib_valid" \in PP)
    /\ \A t \in DOMAIN NsOf : NsOf[t] \in PP => t \in PP
DefinedSurvive ==
    (P \subseteq Defined(v) /\ PairComplete(P) /\ (v = 3 => ("atime" \in P <=> "mtime" \in P)))
        => /\ Outcome(v, P) = "ok"
           /\ \A f \in P : <<f, "val">> \in Carried(v, P)
=============================================================================
