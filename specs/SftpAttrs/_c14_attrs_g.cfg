CONSTANTS
  Emit = FALSE
  AllocGuard = TRUE
  PairRule = TRUE
  Vary = {"size", "alloc_size", "uid", "gid", "owner", "group", "permissions", "atime", "mtime", "atime_ns", "crtime", "extended"}
  Always = {}
SPECIFICATION Spec
INVARIANT NothingInvented
INVARIANT Monotone
INVARIANT DefinedSurvive
CHECK_DEADLOCK FALSE
