CONSTANTS
  Emit = TRUE
  AllocGuard = FALSE
  PairRule = TRUE
  Vary = {"atime_ns", "crtime_ns", "mtime_ns", "ctime_ns", "ctime", "acl", "attrib_bits", "attrib_valid", "text_hint", "mime_type", "nlink", "untrans_name"}
  Always = {"atime", "crtime", "mtime"}
SPECIFICATION Spec
INVARIANT NothingInvented
INVARIANT Monotone
INVARIANT DefinedSurvive
INVARIANT Table
CHECK_DEADLOCK FALSE
