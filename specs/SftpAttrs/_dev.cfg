CONSTANTS
  Vary = {"size", "alloc_size", "uid", "gid", "owner", "group", "permissions", "atime", "mtime", "atime_ns", "crtime", "extended"}
  Always = {}
  Emit = TRUE
  AllocGuard = FALSE
  PairRule = TRUE
SPECIFICATION Spec
INVARIANT NothingInvented
INVARIANT Monotone
INVARIANT DefinedSurvive
INVARIANT Table
CHECK_DEADLOCK FALSE
