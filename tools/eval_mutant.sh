#!/bin/sh
# usage: eval_mutant.sh <patch.diff> <property id> [tier]   -- runs the check against a scratch
# worktree of /repo HEAD with the patch applied (never touches /repo's working tree)
set -e
patch="$1"; pid="$2"; tier="${3:-quick}"
wt=/tmp/mt_eval_$$
git -C /repo worktree add -q --detach "$wt" HEAD
trap 'git -C /repo worktree remove --force "$wt" >/dev/null 2>&1 || true' EXIT
git -C "$wt" apply "$patch" 2>/dev/null || git -C "$wt" apply --3way "$patch"
cd /verif
set +e
VERIF_EVIDENCE_DIR="/tmp/mt_eval_ev_$$" VERIF_REPO="$wt" ./check "$pid" "$tier" > "/tmp/mt_eval_$$.log" 2>&1
rc=$?
grep -c '^VIOLATION' "/tmp/mt_eval_$$.log" | sed 's/^/violations: /'
grep -c '^MODEL-DIVERGENCE' "/tmp/mt_eval_$$.log" | sed 's/^/divergences: /'
grep -A1 '^VIOLATION' "/tmp/mt_eval_$$.log" | head -6 | cut -c1-300
grep '^MACHINERY' "/tmp/mt_eval_$$.log" | head -3
tail -1 "/tmp/mt_eval_$$.log" | cut -c1-300
echo "exit=$rc"
rm -rf "/tmp/mt_eval_$$.log" "/tmp/mt_eval_ev_$$"
# restore evidence from the real tree afterwards is the caller's job
