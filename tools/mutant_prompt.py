#!/usr/bin/env python3
"""Print the prompt given to an independent sub-agent that seeds a property-breaking change.
usage: mutant_prompt.py <property id> <worktree dir> [<focus hint>]"""
import json, sys
pid, wt = sys.argv[1], sys.argv[2]
focus = sys.argv[3] if len(sys.argv) > 3 else ''
p = next(json.loads(l) for l in open('/verif/properties.jsonl') if json.loads(l)['id'] == pid)
prop = json.dumps({k: p[k] for k in ('id', 'title', 'statement', 'quantifier', 'why_tests_cant', 'anchors')}, indent=1)
tests = "tests/test_agent.py tests/test_asn1.py tests/test_auth.py tests/test_auth_keys.py tests/test_compression.py tests/test_config.py tests/test_encryption.py tests/test_kex.py tests/test_known_hosts.py tests/test_mac.py tests/test_packet.py tests/test_public_key.py tests/test_saslprep.py tests/test_sftp.py tests/test_sshsig.py"
print(f"""You are helping to evaluate a verification tool for the Python SSH library asyncssh. Your task is to play the role of a developer who accidentally (or a reviewer-evading adversary who deliberately) introduces a subtle defect.

Your scratch copy of the library is the git worktree {wt} (work ONLY there; do not read or modify /verif or /repo; do not use the network). Here is a semantic property the library is supposed to satisfy:

{prop}

Produce ONE change to the asyncssh sources in {wt}/asyncssh that BREAKS this property while (1) still importing/compiling and (2) still passing the existing test-suite as far as it runs in this sandbox. Only these test modules can run here (the connection-level tests cannot, because the test server needs bcrypt which is not installed): run
  cd {wt} && /venv/bin/python -m pytest -q -p no:cacheprovider -x {tests}
Before your change this reports 161 passed plus a number of failures/errors that are unrelated (they fail identically without your change — compare the set of passing tests before and after; the passing set must not shrink).

Requirements for the change:
- Realistic: the kind of bug a refactoring, an "optimisation", a merge mistake or an off-by-one introduces; a few lines; no obviously malicious code, no new imports of odd modules, no special-casing of magic strings.
- It must need something SPECIFIC to manifest — a particular interleaving of events or completion order of asynchronous work, a fault or connection loss at a particular point, a multi-step sequence of operations, an unusual but legal input or configuration, or two cooperating sites that each look fine alone — NOT something that ordinary use (connect, authenticate, run a command, transfer a file) would expose at once.
{('- Focus hint: ' + focus) if focus else ''}
Deliverables, written to the directory {wt}/OUT/ (create it):
  patch.diff  — `git -C {wt} diff` of your change (only asyncssh/ sources),
  demo.py     — a self-contained demonstration program (it may start an asyncssh server and client in one process on loopback 127.0.0.1 with an ephemeral port — loopback sockets work here; use server_host_keys=[asyncssh.generate_private_key('ssh-ed25519')], known_hosts=None; bcrypt is not installed so do not use encrypted OpenSSH private keys) that exits 0 when the property holds and exits 1 (printing what went wrong) when it is violated. Run it as `cd {wt} && /venv/bin/python OUT/demo.py`: it must exit 1 WITH your change and exit 0 WITHOUT it (verify both: `git stash` / `git stash pop`, or apply the patch in reverse),
  README.md   — 5-10 lines: what the change does, why it violates the property, what exactly it needs in order to manifest, and the test command output summary (passed count before/after).
Finish by leaving the worktree with your change applied and OUT/ filled in. In your final message, summarise the change in 3-4 sentences.""")
