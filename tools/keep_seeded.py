#!/usr/bin/env python3
"""usage: keep_seeded.py <seed id> <property> <worktree with OUT/> <caught_by> <ran> [needs]"""
import json, os, shutil, sys
sid, prop, wt, caught, ran = sys.argv[1:6]
needs = sys.argv[6] if len(sys.argv) > 6 else ''
d = f'/verif/seeded/{sid}'
os.makedirs(d, exist_ok=True)
for f in ('patch.diff', 'demo.py', 'README.md'):
    if os.path.exists(f'{wt}/OUT/{f}'):
        shutil.copy(f'{wt}/OUT/{f}', f'{d}/{f}')
readme = open(f'{d}/README.md').read() if os.path.exists(f'{d}/README.md') else ''
json.dump({'property': prop, 'breaks': readme.split('\n')[0].lstrip('# '), 'needs_to_manifest': needs,
           'confirmed': 'demo.py exits 1 with the patch and 0 without; baseline test modules: same passing set',
           'ran': ran, 'caught_by': caught}, open(f'{d}/meta.json', 'w'), indent=1)
print('kept', d)
