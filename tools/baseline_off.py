#!/usr/bin/env python3
"""Run the repository's pinned baseline with the verification guard OFF and
compare with /root/.vp/BASELINE.json: every stable_pass test must pass."""
import json, os, subprocess, sys, tempfile, xml.etree.ElementTree as ET

base = json.load(open('/root/.vp/BASELINE.json'))
env = dict(os.environ)
env.pop('RONF_ASYNCSSH_VERIF', None)
out = tempfile.mkdtemp(prefix='baseline', dir='/verif/.work' if os.path.isdir('/verif/.work') else None)
xml = os.path.join(out, 'junit.xml')
mods = sorted({t.split('.')[1] for t in base['stable_pass']})
files = [f'tests/{m}.py' for m in mods]
cmd = ['/venv/bin/python', '-m', 'pytest', '-q', '-p', 'no:cacheprovider', '--timeout=900',
       '--continue-on-collection-errors', f'--junitxml={xml}'] + (files if '--all' not in sys.argv else [])
p = subprocess.run(cmd, cwd='/repo', env=env, stdout=subprocess.PIPE, stderr=subprocess.STDOUT)
passed = set()
for tc in ET.parse(xml).getroot().iter('testcase'):
    if not any(c.tag in ('failure', 'error', 'skipped') for c in tc):
        passed.add(f"{tc.get('classname')}::{tc.get('name')}")
missing = [t for t in base['stable_pass'] if t not in passed]
print(f'baseline: {len(base["stable_pass"]) - len(missing)}/{len(base["stable_pass"])} stable tests pass')
for t in missing[:20]:
    print('  NOT PASSING:', t)
import shutil; shutil.rmtree(out, ignore_errors=True)
sys.exit(1 if missing else 0)
