#!/bin/sh
# Offline setup: nothing to build (TLA+ specs are interpreted by TLC, harness is Python).
set -e
cd /verif
mkdir -p .work evidence replays
java -cp /opt/veriftools/tla/tla2tools.jar tlc2.TLC -h >/dev/null 2>&1 || true
/venv/bin/python -c "import sys; sys.path[:0]=['/verif','/repo']; import asyncssh, harness.vloop, harness.tlc" 
echo setup ok
