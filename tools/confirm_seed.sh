#!/bin/sh
# usage: confirm_seed.sh <seed id> <worktree path the demo expects>
# re-creates the worktree, runs seeded/<id>/demo.py with and without the patch
id=$1; wt=$2
git -C /repo worktree add -q --detach "$wt" HEAD || exit 2
cd "$wt"; mkdir -p OUT; cp /verif/seeded/$id/demo.py /verif/seeded/$id/patch.diff OUT/
git apply OUT/patch.diff 2>/dev/null || git apply --3way OUT/patch.diff || { echo "$id: patch does not apply"; git -C /repo worktree remove --force "$wt"; exit 2; }
PYTHONDONTWRITEBYTECODE=1 timeout 300 /venv/bin/python OUT/demo.py >/dev/null 2>&1; with=$?
git checkout -q -- asyncssh
PYTHONDONTWRITEBYTECODE=1 timeout 300 /venv/bin/python OUT/demo.py >/dev/null 2>&1; without=$?
echo "$id: with=$with without=$without"
cd /; git -C /repo worktree remove --force "$wt"
