#!/usr/bin/env python3
"""Generate MANIFEST.json from the table below (single source of truth)."""
import json, os, subprocess
V = os.path.dirname(os.path.dirname(os.path.abspath(__file__)))
props = [json.loads(l) for l in open(os.path.join(V, 'properties.jsonl'))]

CHECKS = {
 'C05': dict(
   category='model_checking', design_ref='DESIGN.md §5.5, §10',
   technique='TLA+ spec (specs/Auth) model-checked with TLC; TLC behaviours replayed into a real SSHServerConnection with state comparison; property monitors on observations',
   text='TLC exhausts the Auth specification (every sequence of <=3-4 auth messages over 2 users x methods x credential/signature classes, every chunking, every interleaving with executor and validator completions) against AuthSound/GateUntilAuth/GrantStable; sampled behaviours of the same spec are replayed step by step into the real server with the implementation state projected onto the spec variables after every step, so the exhaustive result transfers to the code on the replayed behaviours. Right level because the property quantifies over schedules and histories.',
   note='Trusted: TLC, the harness event loop (real asyncio scheduling code with virtual selector), truthful application validators, raw peer built on asyncssh transport for its own side only. Bounded: 2 users, <=4 messages.'),
 'C07': dict(
   category='model_checking', design_ref='DESIGN.md §5.7',
   technique='TLA+ spec (specs/Channel) model-checked with TLC; TLC behaviours replayed packet-by-packet into a real client/server pair with state comparison; monitors on bytes received by the real sessions',
   text='TLC exhausts the Channel specification (writes on two data types, EOF, pause/resume, window adjusts, network deliveries, one and two channels, windows 1-4, packets 1-3) against DeliveredIsPrefix/Isolation/EOFLast; hundreds of sampled behaviours of the same spec are replayed into real SSHChannel objects with manual packet delivery and compared state by state; a harness sweep covers multi-byte characters split at every packet boundary.',
   note='Trusted: TLC, virtual loop, hooks pkt_out/pkt_in for packet boundaries. Bounded windows/units; x1 and x1024 byte scaling. Writer=server channel, reader=client channel (same class).'),
 'C08': dict(
   category='model_checking', design_ref='DESIGN.md §5.8',
   technique='TLA+ spec (specs/Channel) with rogue peer and liveness under weak fairness, checked with TLC; behaviours replayed into a real pair; raw peer with extreme window/packet sizes and data beyond the window',
   text='TLC exhausts window accounting invariants (never send beyond granted window / packet size, never accept beyond advertised window incl. while paused) with a peer that ignores the window, and the liveness property NoDeadlock under weak fairness; honest and rogue behaviours are replayed into the real code with state comparison; a raw peer drives a real server with window/packet size in {0,1,2,2^32-1} and with excess data in five shapes, paused and unpaused.',
   note='Trusted: TLC, virtual loop, raw peer built on asyncssh transport for its own side only. Liveness on the code is checked as drain-completeness, not as a temporal property.'),
 'C09': dict(
   category='model_checking', design_ref='DESIGN.md §5.9',
   technique='TLA+ spec (specs/Lifecycle) model-checked with TLC incl. liveness; behaviours replayed into a real pair with state comparison; crash-point enumeration of a scripted session at every packet boundary',
   text='TLC exhausts the Lifecycle specification (open/confirm/failure, request, EOF, CLOSE handshake, close/abort, connection close/abort, transport cut at any moment, coalesced packets, deferred clean-up callbacks; 1-2 channels) against AllWaitersResolved/CloseOnceAndLast/LegalOrder/NoChannelLeft and the liveness property Terminates; sampled behaviours are replayed into the real code with callback logs, waiter states and channel states compared step by step; a scripted client program with stream, drain, SFTP and wait_closed waiters is re-run with 7 fault kinds at every packet boundary and must leave no pending task when the loop goes idle.',
   note='Trusted: TLC, virtual loop (idle detection = hung-waiter oracle), hooks for packet boundaries. Both peers are asyncssh. Bounded: <=2 channels, <=6 operations, one scripted crash-point scenario.'),
 'C02': dict(
   category='model_checking', design_ref='DESIGN.md §5.2',
   technique='TLA+ spec of the receive machine (specs/RecvMachine) model-checked with TLC; TLC-chosen chunkings applied to live sessions; every emitted byte decoded by an independent RFC 4253 implementation (harness/wire.py)',
   text='TLC exhausts every segmentation of a packet stream (version line, asynchronous handler) through the version/header/body receive machine (InOrderOnce, NotEarly, AllDispatched, liveness; sensitivity variant rejected); TLC-chosen cut sets are mapped onto the real packet boundaries of live sessions in both directions with byte jitter; for every cipher x MAC (x compression), kex family, payload sizes around the block size and sequence numbers near 2^16/2^32 an independent decoder with its own key derivation, decryption, MAC, padding and sequence checks must accept everything both endpoints emit and see exactly the emitted payloads.',
   note='Trusted: TLC, wire.py + `cryptography` primitives, K/H from the key-log hook (kex arithmetic is C03). UMAC tags unverified (no independent UMAC). Conformance part is decided by the independent decoder, not by TLC.'),
}
NOT_YET = 'check under construction in this round; see DESIGN.md §9'

def main():
    hooks_commits = []
    try:
        out = subprocess.run(['git', '-C', '/repo', 'log', '--format=%h %s'], capture_output=True, text=True).stdout
        hooks_commits = [l.split()[0] for l in out.splitlines() if l.split(' ', 1)[1].startswith('verif-hooks:')]
    except Exception:
        pass
    m = {
      'version': 1,
      'setup_cmd': 'sh /verif/tools/setup.sh',
      'hooks': {'guard': 'RONF_ASYNCSSH_VERIF', 'enable': 'environment variable RONF_ASYNCSSH_VERIF=1 (set by ./check); pure Python, nothing to rebuild',
                'baseline_off_cmd': '/venv/bin/python /verif/tools/baseline_off.py', 'source_commits': hooks_commits, 'add_only': True},
      'engines': [{'name': 'tlc', 'path': '/opt/veriftools/tla/tla2tools.jar', 'serves_properties': sorted(CHECKS), 'kind_free_text': 'explicit-state model checker for the TLA+ specifications under /verif/specs'},
                  {'name': 'vloop', 'path': '/verif/harness/vloop.py', 'serves_properties': sorted(CHECKS), 'kind_free_text': 'deterministic virtual-time asyncio loop + in-memory network used to replay specification behaviours into asyncssh'}],
      'checks': [], 'not_applicable': [],
      'notes': 'One entry point: ./check <id> <quick|thorough>. Exit 0 held / 1 VIOLATION / 2 machinery failure. See DESIGN.md.'}
    for p in props:
        pid = p['id']
        if pid in CHECKS:
            c = CHECKS[pid]
            m['checks'].append({'property_id': pid, 'quick_cmd': f'./check {pid} quick', 'thorough_cmd': f'./check {pid} thorough',
                                'evidence_file': f'/verif/evidence/{pid}.json', 'replay_cmd_template': f'./check {pid} --replay {{path}}',
                                'engine': 'tlc', 'level_claimed': {'category': c['category'], 'text': c['text'], 'design_ref': c['design_ref']},
                                'level_note': c['note'], 'technique': c['technique']})
        else:
            m['not_applicable'].append({'property_id': pid, 'reason': NOT_YET})
    json.dump(m, open(os.path.join(V, 'MANIFEST.json'), 'w'), indent=1)
    print('checks:', len(m['checks']), 'not_applicable:', len(m['not_applicable']))
main()
