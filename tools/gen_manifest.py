#!/usr/bin/env python3
"""Generate MANIFEST.json from the table below (single source of truth)."""
import json, os, subprocess
V = os.path.dirname(os.path.dirname(os.path.abspath(__file__)))
props = [json.loads(l) for l in open(os.path.join(V, 'properties.jsonl'))]

CHECKS = {
 'C05': dict(
   category='model_checking', design_ref='DESIGN.md §5.5, §10',
   technique='TLA+ specs (specs/Auth/Auth.tla, Restrict.tla, AuthClient.tla) model-checked with TLC; every configuration of the client-side model replayed with a real client against a real or scripted raw server; TLC behaviours replayed into a real SSHServerConnection with state comparison; credential-restriction decision table replayed row by row against a real server with real keys/certificates; property monitors on observations',
   text='TLC exhausts the Auth specification (every sequence of <=3-4 auth messages over 2 users x methods x credential/signature classes, every chunking, every interleaving with executor and validator completions) against AuthSound/GateUntilAuth/GrantStable; sampled behaviours of the same spec are replayed step by step into the real server with the implementation state projected onto the spec variables after every step, so the exhaustive result transfers to the code on the replayed behaviours. The clause on credential restrictions has its own decision-table spec (Restrict.tla: credential kind x authorized_keys options x certificate extensions/critical options -> allowed operations and forced command; 13 invariants, 4 wrong-rule variants rejected), every row of which is executed against a real server. Right level because the property quantifies over schedules and histories.',
   note='Trusted: TLC, the harness event loop (real asyncio scheduling code with virtual selector), truthful application validators, raw peer built on asyncssh transport for its own side only. Bounded: 2 users, <=4 messages.'),
 'C07': dict(
   category='model_checking', design_ref='DESIGN.md §5.7',
   technique='TLA+ specs (specs/Channel/Channel.tla, Text.tla) model-checked with TLC; TLC behaviours replayed packet-by-packet into a real client/server pair with state comparison; every TLC-enumerated packet script of the text model sent by a raw peer to real text-mode sessions; monitors on bytes/characters received by the real sessions',
   text='TLC exhausts the Channel specification (writes on two data types, EOF, pause/resume, window adjusts, network deliveries, one and two channels, windows 1-4, packets 1-3) against DeliveredIsPrefix/Isolation/EOFLast; hundreds of sampled behaviours of the same spec are replayed into real SSHChannel objects with manual packet delivery and compared state by state; a harness sweep covers multi-byte characters split at every packet boundary; Text.tla models characters of 1-4 bytes on two data types cut anywhere by FIFO (asyncssh) and free (any SSH peer) senders into per-type or shared decoders: TLC shows a shared decoder is only safe against a FIFO sender, every complete packet script is replayed into real receivers in both roles and real senders must emit one of the FIFO scripts.',
   note='Trusted: TLC, virtual loop, hooks pkt_out/pkt_in for packet boundaries. Bounded windows/units; x1 and x1024 byte scaling. Writer=server channel, reader=client channel (same class).'),
 'C08': dict(
   category='model_checking', design_ref='DESIGN.md §5.8',
   technique='TLA+ spec (specs/Channel, incl. the writer water marks) with rogue peer and liveness under weak fairness, checked with TLC; behaviours replayed into a real pair (spec->code); executions recorded from naturally scheduled sessions validated by TLC against the spec (code->spec, ChannelTrace.tla, binding controls); raw peer with extreme window/packet sizes and data beyond the window',
   text='TLC exhausts window accounting invariants (never send beyond granted window / packet size, never accept beyond advertised window incl. while paused) with a peer that ignores the window, and the liveness property NoDeadlock under weak fairness; honest and rogue behaviours are replayed into the real code with state comparison; a raw peer drives a real server with window/packet size in {0,1,2,2^32-1} and with excess data in five shapes, paused and unpaused.',
   note='Trusted: TLC, virtual loop, raw peer built on asyncssh transport for its own side only. Liveness on the code is checked as drain-completeness, not as a temporal property.'),
 'C09': dict(
   category='model_checking', design_ref='DESIGN.md §5.9',
   technique='TLA+ spec (specs/Lifecycle) model-checked with TLC incl. liveness; behaviours and state/transition-covering BFS scripts replayed into a real pair with state comparison; crash-point enumeration of two scripted sessions (requests/SFTP/streams; flow-controlled writers after EOF) at every packet boundary',
   text='TLC exhausts the Lifecycle specification (open/confirm/failure, request, EOF, CLOSE handshake, close/abort, connection close/abort, transport cut at any moment, coalesced packets, deferred clean-up callbacks; 1-2 channels) against AllWaitersResolved/CloseOnceAndLast/LegalOrder/NoChannelLeft and the liveness property Terminates; sampled behaviours are replayed into the real code with callback logs, waiter states and channel states compared step by step; a scripted client program with stream, drain, SFTP and wait_closed waiters is re-run with 7 fault kinds at every packet boundary and must leave no pending task when the loop goes idle.',
   note='Trusted: TLC, virtual loop (idle detection = hung-waiter oracle), hooks for packet boundaries. Both peers are asyncssh. Bounded: <=2 channels, <=8 operations, two scripted crash-point scenarios.'),
 'C02': dict(
   category='model_checking', design_ref='DESIGN.md §5.2',
   technique='TLA+ spec of the receive machine (specs/RecvMachine) model-checked with TLC; TLC-chosen chunkings, one-byte chunks and bursts of hundreds of packets coalesced into one chunk applied to live sessions; every emitted byte decoded by an independent RFC 4253 implementation (harness/wire.py)',
   text='TLC exhausts every segmentation of a packet stream (version line, asynchronous handler) through the version/header/body receive machine (InOrderOnce, NotEarly, AllDispatched, liveness; sensitivity variant rejected); TLC-chosen cut sets are mapped onto the real packet boundaries of live sessions in both directions with byte jitter; for every cipher x MAC (x compression), kex family, payload sizes around the block size and sequence numbers near 2^16/2^32 an independent decoder with its own key derivation, decryption, MAC, padding and sequence checks must accept everything both endpoints emit and see exactly the emitted payloads.',
   note='Trusted: TLC, wire.py + `cryptography` primitives, K/H from the key-log hook (kex arithmetic is C03). UMAC tags unverified (no independent UMAC). Conformance part is decided by the independent decoder, not by TLC.'),
 'C03': dict(
   category='model_checking', design_ref='DESIGN.md §5.3',
   technique='symbolic TLA+ model of the handshake (specs/Handshake) with a field-editing adversary, model-checked with TLC; TLC edit cases applied by a parsing MITM to live handshakes of every kex family; negotiated names compared with FirstCommon',
   text='TLC exhausts the symbolic handshake (fixed-group DH/ECDH/hybrid, group exchange, RSA flows; 1-2 field edits incl. harmless ones; all preference-list pairs over a 3-name alphabet) against AgreeOrFail/NoDowngrade/FirstClientPref/EditDetected, with four sensitivity variants rejected; each abstract edit is applied to real cleartext handshake packets for every available kex method, plus hostile public values and byte flips, and the outcome (both fail / both complete with equal session ids and the predicted algorithms) is compared with the model.',
   note='Trusted: TLC, the harness wire codec of drivers/handshake.py, classification of bytes into hashed/unhashed. Cryptographic strength of hash/signature is assumed (symbolic model).'),
 'C04': dict(
   category='model_checking', design_ref='DESIGN.md §5.4',
   technique='TLA+ decision-table model of host trust (specs/HostTrust) enumerated by TLC; every case materialised with real keys, certificates and known_hosts text and run as a live connection',
   text='TLC enumerates known_hosts contents (<=3 lines x marker x match kind) x server presentations (key/cert, CA, type, validity windows incl. boundaries, principals, signature validity, key possession) and checks the code-ordered decision against TrustRule and NoCredsBeforeTrust (three sensitivity variants rejected); each case is materialised in ~45 pattern spellings incl. hashed/CIDR/[host]:port/negation with ed25519/ecdsa/rsa keys, a lying server and tampered certificates, and the live outcome plus absence of any authentication callback at the server is compared with the rule.',
   note='Trusted: TLC, key/certificate generation by asyncssh for materialisation, fixed clock. Known calibration: a certificate whose certified key is @revoked is accepted (outside C04 as stated).'),
 'C12': dict(
   category='model_checking', design_ref='DESIGN.md §5.12',
   technique='TLA+ models of the parallel SFTP I/O scheduler and of the recursive copy driver (specs/SftpIO: SftpIO.tla, SftpTree.tla) model-checked with TLC; behaviours replayed against the real client with a scripted SFTP peer answering in TLC order; tree x flag cases replayed on real file systems; recorded natural transfers validated by TLC (SftpIOTrace.tla, code->spec)',
   text='TLC exhausts file size x block size x max_requests x answer pattern (full/short/EOF/error) x completion order x sparse layouts against Read/Write/CopyCorrect, FailLoud, NoLostTask, Progress (three sensitivity variants rejected); thousands of behaviours are replayed into SFTPClientFile.read/write and get/put/copy (sparse and non-sparse, SFTP v3-v6, several byte scalings) with a scripted peer holding every READ/WRITE; the verdict is destination bytes vs exception/return.',
   note='Trusted: TLC, scripted SFTP peer of drivers/sftp_io.py. Not covered: server-side copy-data shortcut, append mode, local source shrinking during put.'),
 'C14': dict(
   category='model_checking', design_ref='DESIGN.md §5.14',
   technique='TLA+ models of SFTP request/reply matching, server request cases and attribute carriage (specs/SftpProto, specs/SftpAttrs) enumerated by TLC; cases replayed against the real client handler, real server and real codec',
   text='TLC exhausts reply sequences for 3 outstanding requests (unknown/duplicate id, wrong type), a server case table (30 request types x versions 3-6 x truncation at every byte x trailing bytes x unsupported types; errno/SFTPError status table) and 2x4096 attribute subsets x 4 versions; every case is executed against the real SFTPClient, the real SFTP server (raw client counting replies per id) and SFTPAttrs/SFTPName encode/decode.',
   note='Trusted: TLC, raw SFTP peers of drivers/sftp_proto.py. alloc_size being encoded in versions < 6 is recorded as an observation (outside the quantifier).'),
 'C15': dict(
   category='exploration', design_ref='DESIGN.md §5.15',
   technique='TLA+ applicability/outcome tables, multi-key file scanner and conversion chains (specs/KeyFormats) enumerated by TLC as case generator and outcome predictor; harness round trips with PyCA and ssh-keygen as independent readers/writers decide',
   text='TLC enumerates the legal (key type, format, cipher, hash, PBE version, passphrase) space with predicted outcome class, multi-key file layouts and export/import chains; each case is executed: export -> import -> equality of key, public half and comment, wrong passphrase rejected, and cross-read/written by PyCA `cryptography` and ssh-keygen. Byte fidelity is decided by the harness comparison, not by TLC, hence exploration.',
   note='Trusted: PyCA cryptography and OpenSSH ssh-keygen as independent implementations. bcrypt absent: OpenSSH-format encrypted private keys are specified (and checked) to fail with KeyExportError here.'),
 'C16': dict(
   category='model_checking', design_ref='DESIGN.md §5.16',
   technique='TLA+ decision tables CertRule / SshsigRule / VerifyRule (specs/SigCert) model-checked with TLC against the code-ordered decision; every row materialised with real keys and a patched clock; single-byte tamper sweeps',
   text='TLC checks equivalence of the declarative rules and the code-ordered checks over 41k certificate rows, ~5.5k SSHSIG rows and 504 signature rows (five sensitivity variants rejected); every row is materialised with real keys of every algorithm, boundary instants, principals and option sets; every single-byte edit, truncation and extension of signatures, certificates and SSHSIG blobs must fail verification. The table part is model checking; the cryptographic part is exploration.',
   note='Trusted: TLC, key generation by asyncssh, ssh-keygen as second opinion. ECDSA (r, n-s) malleability is outside the quantifier.'),
 'C01': dict(
   category='model_checking', design_ref='DESIGN.md §5.1',
   technique='TLA+ adversary model of the encrypted packet stream (specs/Transport/Tamper.tla) model-checked with TLC; every adversary schedule of the model replayed by a packet-boundary MITM on live sessions',
   text='TLC exhausts up to two adversary actions (bit flip in length/body/padding/tag, truncation, drop, duplicate, swap, replayed/foreign/forged splice) at every position of a packet stream for the four shapes of the encryption layer against TamperEvident/PrefixIntact (the parse-after-error variant must fail for GCM); every distinct schedule is replayed on live authenticated sessions in both directions at several session phases for representative (thorough: all) cipher/MAC/compression combinations; monitors: application data is a prefix of what was written, data before the first altered packet arrived, an altered stream never ends in a clean close.',
   note='Trusted: TLC, virtual loop with selector semantics, MITM of drivers/transport.py. Adversary granularity: whole packets + in-packet bit flips/truncation. F6 (re-parse between fatal error and deferred clean-up) is outside what this harness can produce (see DESIGN.md).'),
 'C11': dict(
   category='model_checking', design_ref='DESIGN.md §5.11',
   technique='TLA+ model of key re-exchange on a busy connection (specs/Transport/Rekey.tla) model-checked with TLC incl. liveness; behaviours replayed packet by packet into a real pair (spec->code); executions recorded from naturally scheduled sessions validated by TLC against the spec (code->spec, RekeyTrace.tla, with binding controls); busy live sessions decoded by the independent decoder',
   text='TLC exhausts application sends from both sides interleaved with every step of (repeated, possibly simultaneous) key re-exchanges against FIFOExactlyOnce/NoKeyMismatch/OnlyKexBetween/EpochsInStep and the liveness property Completes (the flush-before-NEWKEYS variant is rejected); hundreds of behaviours are replayed at packet granularity with emitted message kinds, pending packets and received data compared after every step; live sessions with byte limits from 1 upward on several cipher families with requests and channel opens in flight must echo intact, emit only kex messages between KEXINIT and NEWKEYS, keep the session id, and be decodable by an independent decoder that switches to freshly derived keys at every NEWKEYS.',
   note='Trusted: TLC, hooks pkt_out/keylog, wire.py. Replay thresholds are 0/1 application packet, recorded traces use byte limits of 1 byte to 4 packets (also half-packet offsets); time-based re-keying shares the trigger path and is not driven by the virtual clock. Algorithm changes between exchanges are exercised in live sessions (both ends switch cipher/MAC/compression/kex preferences in mid-session) and judged by the independent decoder; the TLA+ model abstracts algorithms into key epochs.'),
 'C13': dict(
   category='model_checking', design_ref='DESIGN.md §5.13',
   technique='TLA+ models of path mapping, of request sequences over a small file system with symlinks/hard links and of SCP/recursive-get downloads (specs/PathConfine) model-checked with TLC; cases and behaviours replayed against the real chroot SFTP server, SCP sink and recursive get with a system-call monitor',
   text='TLC exhausts every path over {a,b,"",".",".."} up to 5 components through the transcribed map_path, request sequences (22 request kinds) over a 3-4 node file system with symlinks and hard links, and SCP record / hostile directory-listing sequences, against AllTouchedUnderRoot/AllCreatedUnderDest (five sensitivity variants rejected); every case and every escaping history TLC finds is replayed against the real SFTPServer(chroot=), SCP sink and SFTPClient.get(recurse=True) in a scratch directory; the oracle is an audit-hook/os-wrapper monitor of every path-taking system call plus decoy files, independent of asyncssh internals.',
   note='Trusted: TLC, the system-call monitor (audit hook + os wrappers) and the harness kernel-walk resolver. Three known findings (textual chroot vs later-moved symlinks; symlink write-through in recursive get) are listed in known_findings.json by mechanism kind.'),
 'C06': dict(
   category='model_checking', design_ref='DESIGN.md §5.6',
   technique='TLA+ decision table of the phase/role gate (specs/Transport/Gate.tla) model-checked with TLC; every row injected by a raw malicious peer (client and server role) or a cleartext MITM into a real dialogue and compared with an untampered twin run',
   text='TLC checks the transcribed gate of _recv_packet and the connection-level handlers over every (role, phase, message class, strict) row against NoEffectOutOfPhase/StrictNoFiller/RoleRespected (variants without the auth gate / role checks are rejected) and emits the table; each row of the encrypted phases is injected (well-formed, truncated, trailing bytes; thorough: every type 1..100) by a raw peer into a real server and a real client dialogue, singly and in pairs, and must end the connection or leave the run identical to the twin; cleartext injections at every pre-NEWKEYS position (by a MITM, and by the raw peer itself with and without strict key exchange) and the prefix-truncation manoeuvre must not go unnoticed under strict key exchange; the same injections after a completed key re-exchange (phase P4n); USERAUTH_SUCCESS is sent at every point of the client dialogue and may only be accepted while the client log shows a request outstanding.',
   note='Trusted: TLC, raw peers built on asyncssh transport for their own side, hook log of the client for the outstanding-request criterion. Peers without strict key exchange are raw peers that do not offer it (server under test; first exchange and all encrypted phases incl. after a re-exchange); a non-strict raw SERVER against the real client is covered by the table only. Late USERAUTH_BANNER is a deliberate upstream tolerance and is not alarmed.'),
 'C19': dict(
   category='model_checking', design_ref='DESIGN.md §5.19',
   technique='TLA+ models of the stream session, process exit/collect and drain (specs/Stream) model-checked with TLC; case tables and behaviours replayed over real channel pairs with exactly TLC packetisation against a reference semantics on the concatenated stream',
   text='TLC exhausts every stream over {a,b,newline} up to 4-6 units x every chunking x read/readexactly/readuntil/readline (single, multiple, regex separators) x windows, in-band markers, exit/CLOSE/wait/collect_output orderings, redirect targets and drain (ChunkIndependent, NothingLost, AllDataThenEOF, PauseAccurate, DrainSound; seven sensitivity variants rejected); ~15k (thorough 185k) cases are replayed against real SSHReader/SSHWriter/SSHClientProcess objects and every return value/exception is compared with the reference, with the window-escape calibrated as allowed.',
   note='Trusted: TLC, virtual loop, the reference semantics in drivers/stream.py. Not modelled: reads after connection loss with an exception, async for, server-side redirect().'),
 'C17': dict(
   category='model_checking', design_ref='DESIGN.md §5.17',
   technique='TLA+ model of pattern matching, known_hosts lookup, option tokenizer and authorized_keys selection (specs/TrustFiles) enumerated by TLC; every case executed through the real lookup APIs; ssh-keygen -F as second opinion',
   text='Every case is a TLC initial state checked against twelve invariants (WildIsRef, NegationExcludes, FallbackRule, RevocationKept, DamagedLineIsLocal, TokQuotes, AllMustMatch, FirstEntryWins ...; eight wrong-rule/witness runs rejected): pattern lists over a 5-symbol alphabet, 20 host-field forms incl. hashed, [host]:port, CIDR and negation, markers, files of up to 3 lines in every order, 56k option strings, 19 key-damage classes; each of the ~130k (thorough 955k) cases runs through match_known_hosts / import_known_hosts().match / import_authorized_keys().validate with real keys and is compared with the model.',
   note='Trusted: TLC, key material generated by asyncssh, ssh-keygen -F (advisory). Recorded, not alarmed: no case folding (OpenSSH folds), CIDR patterns are an asyncssh extension, backslash escapes outside quotes.'),
 'C18': dict(
   category='model_checking', design_ref='DESIGN.md §5.18',
   technique='TLA+ interpreter of abstract config programs (specs/Config) enumerated by TLC; each program written to real files and loaded by SSHClientConfig/SSHServerConfig and through connect(); ssh -G as second opinion',
   text='TLC enumerates programs of up to 4 directives from a 53-entry menu (Host/Match with negation and multiple criteria, canonical/final, spellings, scalar and accumulating options, tokens and ${ENV}, Include of file and glob) x 6 targets x 26 hostile server user names against FirstWins/Accumulates/IncludeInPlace/IncludeRestores/NoUnsafeExpansion (three sensitivity runs rejected); each of the ~28k (thorough 242k) cases is written to disk, loaded by the real code and compared with the model; ssh -G agrees on every sampled case.',
   note='Trusted: TLC, OpenSSH ssh -G (advisory). One known finding: the second (canonical/final) pass restarts from scratch (known_findings.json).'),
 'C20': dict(
   category='model_checking', design_ref='DESIGN.md §5.20',
   technique='TLA+ models of a forwarded connection, of several listeners on one connection, of X11 forwarding, the forwarding permission table and the SOCKS parser (specs/Forward) model-checked with TLC; recorded natural forwards validated by TLC (ForwardTrace.tla, code->spec); behaviours/rows/inputs replayed on the in-memory network against real forwarders, listeners and a real server',
   text='TLC exhausts interleavings of data/EOF/close/reset from both ends incl. early data and late confirm/refusal and SSH cut (RelayFIFO, HalfClose, CloseBoth, Released, NoListenerLeft; four variants rejected), the 504-row permission table (request kind x key options x certificate x application answer x destination) and 4.7k SOCKS parser states; behaviours are replayed with manual packet delivery on local/remote/SOCKS4/4a/5/UNIX forwards with step-by-step comparison, every permission row runs against a real server with real key options/certificates, and every SOCKS input is fed whole, split and byte by byte.',
   note='Trusted: TLC, in-memory sockets of the virtual loop as TCP/UNIX ends (thorough adds real loopback sockets). Over-restrictive refusals are divergences, not violations.'),
 'C10': dict(
   category='exploration', design_ref='DESIGN.md §5.10',
   technique='TLA+ generative grammars and loop-progress model (specs/Hostile/Grammar.tla) enumerated/checked by TLC; every derivation materialised to bytes and fed to real endpoints and parsers under a meter (watchdog, iteration/output budgets, loop exception handler)',
   text='TLC checks LoopProgress (every iteration of every peer-driven loop consumes input or ends the loop, for peer parameters 0..3; the pre-repair send loop is rejected) and enumerates the structured case space: 26 SSH message layouts x field x mutation (extreme numbers, inconsistent lengths, non-UTF-8, cut after a field, trailing bytes) in their protocol phase, DER trees with every tag and length form, plus fixed raw byte streams for both roles and seeded byte mutations; each input must be handled within the work budget, leave the event loop exception-free, and end in "carry on" or "connection closed with an error reported to the owner"; parsers must return or raise their documented error. A model checker does not decide "for every byte string": the verdict per input is the harness meter, hence exploration.',
   note='Trusted: the meter constants (3 s watchdog, 2000 iterations, 4096+64*len bytes), TLC for the case space. SFTP/agent/trust-file parsers are covered by C14/C05/C17.'),
}
NOT_YET = 'check under construction in this round; see DESIGN.md §9'

def main():
    hooks_commits = []
    try:
        out = subprocess.run(['git', '-C', '/repo', 'log', '--format=%h %s'], capture_output=True, text=True).stdout
        hooks_commits = [l.split()[0] for l in out.splitlines() if l.split(' ', 1)[1].startswith('verif-hooks:')]
    except Exception:
        pass
    m = {
      'version': 1,
      'setup_cmd': 'sh /verif/tools/setup.sh',
      'hooks': {'guard': 'RONF_ASYNCSSH_VERIF', 'enable': 'environment variable RONF_ASYNCSSH_VERIF=1 (set by ./check); pure Python, nothing to rebuild',
                'baseline_off_cmd': '/venv/bin/python /verif/tools/baseline_off.py', 'source_commits': hooks_commits, 'add_only': True},
      'engines': [{'name': 'tlc', 'path': '/opt/veriftools/tla/tla2tools.jar', 'serves_properties': sorted(CHECKS), 'kind_free_text': 'explicit-state model checker for the TLA+ specifications under /verif/specs'},
                  {'name': 'vloop', 'path': '/verif/harness/vloop.py', 'serves_properties': sorted(CHECKS), 'kind_free_text': 'deterministic virtual-time asyncio loop + in-memory network used to replay specification behaviours into asyncssh'}],
      'checks': [], 'not_applicable': [],
      'notes': 'One entry point: ./check <id> <quick|thorough>. Exit 0 held / 1 VIOLATION / 2 machinery failure. See DESIGN.md.'}
    for p in props:
        pid = p['id']
        if pid in CHECKS:
            c = CHECKS[pid]
            m['checks'].append({'property_id': pid, 'quick_cmd': f'./check {pid} quick', 'thorough_cmd': f'./check {pid} thorough',
                                'evidence_file': f'/verif/evidence/{pid}.json', 'replay_cmd_template': f'./check {pid} --replay {{path}}',
                                'engine': 'tlc', 'level_claimed': {'category': c['category'], 'text': c['text'], 'design_ref': c['design_ref']},
                                'level_note': c['note'], 'technique': c['technique']})
        else:
            m['not_applicable'].append({'property_id': pid, 'reason': NOT_YET})
    json.dump(m, open(os.path.join(V, 'MANIFEST.json'), 'w'), indent=1)
    print('checks:', len(m['checks']), 'not_applicable:', len(m['not_applicable']))
main()
